// C09: logging front end + sinks. Every log call made while a sink is enabled and passing its filter
// must yield exactly one complete record in that sink, per-thread order kept, text cut to exactly the
// configured maximum and marked; the file sink must not lose or split records across roll-over and
// must have everything on disk when disable() returns.
// Sinks observed: a recording sink written against the public log::Sink API, AsyncFileSink (fresh
// directory), AsyncStdoutSink / SyncStdoutSink (fd 1 redirected to a file during the scenario).
#include "common/vh.hpp"
#include <sys/syscall.h>
#include "common/conc.hpp"
#include <tbox/base/log.h>
#include <tbox/base/log_impl.h>
#include <tbox/log/sink.h>
#include <tbox/log/async_file_sink.h>
#include <tbox/log/async_stdout_sink.h>
#include <tbox/log/sync_stdout_sink.h>
#include <thread>
#include <mutex>
#include <condition_variable>
#include <memory>
#include <vector>
#include <map>
#include <algorithm>
#include <fstream>
#include <sstream>
#include <dirent.h>
#include <sys/time.h>
#include <sys/stat.h>
#include <time.h>
#include <set>

using namespace tbox;

VC_DEFINE_POINT()

namespace {

const char *kModules[] = {"mod.alpha", "mod.beta", "gamma", "d"};
const char *kFuncs[] = {"doWork", "onEvent", "f", "handleSomethingRatherLong"};
const char *kFiles[] = {"/src/a/b/file_one.cpp", "file_two.cpp", "x/y.cc", "/z.cpp"};
const char *kBase[] = {"file_one.cpp", "file_two.cpp", "y.cc", "z.cpp"};

struct Call {              // one log call as made by a thread
    int thread, seq;
    int level, mod, func, file, line;
    bool puts;             // LogPuts form (no formatting)
    size_t len;            // full text length
    int burst;
    size_t maxlen;         // max length in force during this burst
    struct timeval t0, t1;
    long tid;
};

std::string make_text(int thread, int seq, size_t len) {
    std::string s = vh::fmt("T%d:%d:%zu:", thread, seq, len);
    if (s.size() > len) s.resize(len);
    size_t i = s.size();
    s.resize(len);
    for (; i < len; ++i) s[i] = (char)('a' + ((i * 7 + seq * 13 + thread) % 26));
    return s;
}

struct Rec {               // one record as seen in a sink
    long tid = 0; uint32_t sec = 0, usec = 0;
    std::string module, func, file, text;
    int line = 0, level = 0; bool trunc = false;
};

class RecSink : public log::Sink {
  public:
    std::vector<Rec> recs;      // written under the log front end's own dispatch lock only
  protected:
    void onLogFrontEnd(const LogContent *c) override {
        Rec r;
        r.tid = c->thread_id; r.sec = c->timestamp.sec; r.usec = c->timestamp.usec;
        r.module = c->module_id ? c->module_id : "";
        r.func = c->func_name ? c->func_name : "";
        r.file = c->file_name ? c->file_name : "";
        r.line = c->line; r.level = c->level; r.trunc = c->text_trunc;
        if (c->text_ptr && c->text_len) r.text.assign(c->text_ptr, c->text_len);
        recs.push_back(std::move(r));
    }
};

struct SinkCfg {
    int kind;                        // 0 rec, 1 file, 2 async stdout, 3 sync stdout
    int def_level;
    std::map<int, int> mod_level;    // module index -> level (configuration of burst 0)
    std::vector<int> def_level_b;                   // per burst: default threshold in force
    std::vector<std::map<int, int>> mod_level_b;    // per burst: per-module thresholds in force
    std::vector<bool> enabled;       // per burst
};

bool passes(const SinkCfg &s, const Call &c) {
    const std::map<int, int> &ml = s.mod_level_b[c.burst];
    auto it = ml.find(c.mod);
    int lv = std::max(0, std::min(LOG_LEVEL_MAX - 1, c.level));
    if (it != ml.end()) return lv <= it->second;
    return lv <= s.def_level_b[c.burst];
}

struct Barrier {
    std::mutex m; std::condition_variable cv; int count = 0, gen = 0, n;
    explicit Barrier(int n_) : n(n_) {}
    void wait() {
        std::unique_lock<std::mutex> lk(m);
        int g = gen;
        if (++count == n) { count = 0; ++gen; cv.notify_all(); }
        else cv.wait(lk, [&] { return gen != g; });
    }
};

bool parse_line(const std::string &ln, Rec &r) {
    // "L yyyy-mm-dd HH:MM:SS.uuuuuu TID MODULE func() [TEXT ][(TRUNCATED) ]-- file:line"
    if (ln.size() < 30 || ln[1] != ' ') return false;
    static const char codes[] = {'F', 'E', 'W', 'N', 'I', 'I', 'D', 'T'};
    r.level = -1;
    for (int i = 0; i < 8; ++i) if (codes[i] == ln[0]) { r.level = i; break; }
    if (r.level < 0) return false;
    struct tm tm; memset(&tm, 0, sizeof tm);
    int us = 0;
    if (sscanf(ln.c_str() + 2, "%4d-%2d-%2d %2d:%2d:%2d.%6d", &tm.tm_year, &tm.tm_mon, &tm.tm_mday, &tm.tm_hour, &tm.tm_min, &tm.tm_sec, &us) != 7) return false;
    if (ln.size() < 29 || ln[28] != ' ') return false;
    tm.tm_year -= 1900; tm.tm_mon -= 1; tm.tm_isdst = -1;
    r.sec = (uint32_t)mktime(&tm); r.usec = us;
    size_t p = 29;
    auto tok = [&](std::string &out) -> bool { size_t q = ln.find(' ', p); if (q == std::string::npos) return false; out = ln.substr(p, q - p); p = q + 1; return true; };
    std::string t;
    if (!tok(t)) return false;
    r.tid = atol(t.c_str());
    if (!tok(r.module)) return false;
    if (!tok(t)) return false;
    if (t.size() < 2 || t.substr(t.size() - 2) != "()") return false;
    r.func = t.substr(0, t.size() - 2);
    size_t tail = ln.rfind("-- ");
    if (tail == std::string::npos || tail < p) return false;
    std::string mid = ln.substr(p, tail - p);
    std::string fl = ln.substr(tail + 3);
    size_t colon = fl.rfind(':');
    if (colon == std::string::npos) return false;
    r.file = fl.substr(0, colon); r.line = atoi(fl.c_str() + colon + 1);
    r.trunc = false;
    const std::string tr = "(TRUNCATED) ";
    if (mid.size() >= tr.size() && mid.substr(mid.size() - tr.size()) == tr) { r.trunc = true; mid.resize(mid.size() - tr.size()); }
    if (!mid.empty()) { if (mid.back() != ' ') return false; mid.pop_back(); }
    if (mid.find(' ') != std::string::npos) return false;
    r.text = mid;
    return true;
}

std::string slurp(const std::string &p) {
    std::ifstream f(p, std::ios::binary);
    std::stringstream ss; ss << f.rdbuf(); return ss.str();
}

void rm_rf(const std::string &dir) {
    DIR *d = opendir(dir.c_str());
    if (d) { while (dirent *e = readdir(d)) { std::string n = e->d_name; if (n != "." && n != "..") unlink((dir + "/" + n).c_str()); } closedir(d); }
    rmdir(dir.c_str());
}

struct Violation { std::string key, detail; };

// compare what a sink holds (per thread, in order) with the calls that should have reached it
void compare(const char *sname, const std::vector<Call> &calls, const SinkCfg &cfg, const std::vector<Rec> &recs, bool have_time_us,
             std::vector<Violation> &out) {
    std::map<long, std::vector<const Call *>> exp;
    for (auto &c : calls) if (cfg.enabled[c.burst] && passes(cfg, c)) exp[c.tid].push_back(&c);
    std::map<long, std::vector<const Rec *>> got;
    for (auto &r : recs) got[r.tid].push_back(&r);
    for (auto &g : got) if (!exp.count(g.first)) { out.push_back({std::string(sname) + "/record-from-unknown-thread", vh::fmt("%zu records carry thread id %ld which made no passing call", g.second.size(), g.first)}); return; }
    for (auto &e : exp) {
        auto &ev = e.second;
        auto &gv = got[e.first];
        size_t n = std::min(ev.size(), gv.size());
        for (size_t i = 0; i < n; ++i) {
            const Call &c = *ev[i]; const Rec &r = *gv[i];
            std::string full = make_text(c.thread, c.seq, c.len);
            bool etr = c.len > c.maxlen;
            std::string etext = etr ? full.substr(0, c.maxlen) : full;
            int elevel = std::max(0, std::min(LOG_LEVEL_MAX - 1, c.level));
            const char *what = nullptr;
            if (r.text != etext) what = r.text.size() != etext.size() ? "text-length" : "text-content";
            else if (r.trunc != etr) what = "truncation-mark";
            else if (r.module != kModules[c.mod]) what = "module";
            else if (r.func != kFuncs[c.func]) what = "function";
            else if (r.file != kBase[c.file]) what = "file";
            else if (r.line != c.line) what = "line";
            else if (have_time_us ? r.level != elevel : LOG_LEVEL_LEVEL_CODE[r.level] != LOG_LEVEL_LEVEL_CODE[elevel]) what = "level";
            else {
                // the record's time stamp is read inside the log call: it must lie between the harness's own clock
                // readings taken just before and just after the call (same clock, microsecond precision)
                long long ts = (long long)r.sec * 1000000LL + r.usec;
                long long lo = (long long)c.t0.tv_sec * 1000000LL + c.t0.tv_usec, hi = (long long)c.t1.tv_sec * 1000000LL + c.t1.tv_usec;
                if (ts < lo || ts > hi) what = "timestamp";
                if (r.sec != (uint32_t)c.t0.tv_sec) vh::counter("records_stamped_in_a_later_second_than_call_start");
            }
            if (what) {
                // distinguish loss / duplication / reordering from corruption of one record
                std::string cls = what;
                if (std::string(what).find("text") == 0 || !strcmp(what, "line")) {
                    if (i + 1 < ev.size() && r.text == (ev[i + 1]->len > ev[i + 1]->maxlen ? make_text(ev[i + 1]->thread, ev[i + 1]->seq, ev[i + 1]->len).substr(0, ev[i + 1]->maxlen) : make_text(ev[i + 1]->thread, ev[i + 1]->seq, ev[i + 1]->len)) && r.line == ev[i + 1]->line) cls = "record-lost";
                    else if (i > 0 && r.text == gv[i - 1]->text && r.line == gv[i - 1]->line) cls = "record-duplicated";
                }
                out.push_back({std::string(sname) + "/" + cls, vh::fmt("thread %d record #%zu (call seq %d, burst %d, level %d, len %zu, max %zu, %s): expected text[%zu]='%.40s..' trunc=%d line=%d module=%s; sink has text[%zu]='%.40s..' trunc=%d line=%d module=%s level=%d",
                                                                  c.thread, i, c.seq, c.burst, c.level, c.len, c.maxlen, c.puts ? "puts" : "printf", etext.size(), etext.c_str(), (int)etr, c.line, kModules[c.mod],
                                                                  r.text.size(), r.text.c_str(), (int)r.trunc, r.line, r.module.c_str(), r.level)});
                return;
            }
        }
        if (gv.size() < ev.size()) { out.push_back({std::string(sname) + "/record-lost", vh::fmt("thread id %ld: %zu passing calls, only %zu records in the sink (first missing: seq %d burst %d len %zu)", e.first, ev.size(), gv.size(), ev[n]->seq, ev[n]->burst, ev[n]->len)}); return; }
        if (gv.size() > ev.size()) { out.push_back({std::string(sname) + "/record-extra", vh::fmt("thread id %ld: %zu passing calls but %zu records in the sink (first extra text '%.40s')", e.first, ev.size(), gv.size(), gv[n]->text.c_str())}); return; }
    }
}

void one_case(uint64_t idx, vh::Rng &r) {
    static const int dmax[] = {0, 20, 100, 300};
    vc::set_delays(vh::mix(vh::st().args.seed, idx), (int)r.below(10), r.pick(dmax));
    vh::Sig sig;
    const size_t default_max = LogGetMaxLength();
    int nthreads = 1 + (int)r.below(8);
    int nbursts = 1 + (int)r.below(4);
    // max length per burst (changed only at quiescent points)
    static const size_t maxes[] = {64, 2048, 2049, 5000, 0 /*default*/};
    std::vector<size_t> burst_max(nbursts);
    for (auto &m : burst_max) { size_t v = r.pick(maxes); m = v ? v : default_max; }
    bool big_ok = r.chance(1, 6);    // only some cases log texts beyond the 100 KB default
    // sinks
    std::vector<SinkCfg> sinks;
    {
        SinkCfg s; s.kind = 0; sinks.push_back(s);
        if (r.chance(3, 4)) { SinkCfg f; f.kind = 1; sinks.push_back(f); }
        if (r.chance(1, 2)) { SinkCfg o; o.kind = r.chance(1, 2) ? 2 : 3; sinks.push_back(o); }
    }
    for (auto &s : sinks) {
        static const int lv[] = {LOG_LEVEL_MAX, LOG_LEVEL_MAX, LOG_LEVEL_TRACE, LOG_LEVEL_DEBUG, LOG_LEVEL_INFO, LOG_LEVEL_WARN, LOG_LEVEL_FATAL, -1};
        s.def_level = r.pick(lv);
        int nm = (int)r.below(3);
        for (int i = 0; i < nm; ++i) s.mod_level[(int)r.below(4)] = (int)r.range(-1, LOG_LEVEL_MAX);
        s.enabled.resize(nbursts);
        for (int b = 0; b < nbursts; ++b) s.enabled[b] = r.chance(4, 5);
        // thresholds may be changed again between bursts: set again on the same module (up or down), unset, or a new default
        s.def_level_b.assign(nbursts, s.def_level);
        s.mod_level_b.assign(nbursts, s.mod_level);
        for (int b = 1; b < nbursts; ++b) {
            s.def_level_b[b] = s.def_level_b[b - 1];
            s.mod_level_b[b] = s.mod_level_b[b - 1];
            int nchg = (int)r.below(3);
            for (int i = 0; i < nchg; ++i) {
                int m = (int)r.below(4);
                switch (r.below(4)) {
                    case 0: s.def_level_b[b] = r.pick(lv); break;
                    case 1: s.mod_level_b[b].erase(m); break;
                    default: s.mod_level_b[b][m] = (int)r.range(-1, LOG_LEVEL_MAX); break;
                }
            }
        }
        sig.add(s.kind); sig.add(s.def_level); sig.add(s.mod_level.size());
    }
    // calls
    std::vector<std::vector<Call>> per_thread(nthreads);
    size_t total_calls = 0;
    for (int t = 0; t < nthreads; ++t) {
        int seq = 0;
        for (int b = 0; b < nbursts; ++b) {
            int n = 5 + (int)r.below(nthreads <= 2 ? 160 : 60);
            size_t mx = burst_max[b];
            for (int i = 0; i < n; ++i) {
                Call c; c.thread = t; c.seq = seq++; c.burst = b; c.maxlen = mx;
                c.level = (int)r.range(-1, LOG_LEVEL_MAX);
                c.mod = (int)r.below(4); c.func = (int)r.below(4); c.file = (int)r.below(4); c.line = 1 + (int)r.below(5000);
                c.puts = r.chance(1, 3);
                switch (r.below(14)) {
                    case 0: c.len = 0; break;
                    case 1: c.len = 1; break;
                    case 2: c.len = 2047; break;
                    case 3: c.len = 2048; break;
                    case 4: c.len = 2049; break;
                    case 5: c.len = mx > 0 ? mx - 1 : 0; break;
                    case 6: c.len = mx; break;
                    case 7: c.len = mx + 1; break;
                    case 8: c.len = 3 * mx; break;
                    case 9: c.len = 2040 + r.below(20); break;
                    default: c.len = r.below(200); break;
                }
                if (c.len > 20000 && !big_ok) c.len = r.below(3000);
                if (c.len > 320000) c.len = 320000;
                per_thread[t].push_back(c);
                sig.add(c.level); sig.add(c.len); sig.add(c.puts);
                ++total_calls;
            }
        }
    }
    // pipe configuration for the async sinks
    log::AsyncSink::Config pcfg;
    { static const size_t bs[] = {16, 64, 100, 1024, 10240}; pcfg.buff_size = r.pick(bs); pcfg.buff_min_num = 1 + r.below(3); pcfg.buff_max_num = std::max<size_t>(2, pcfg.buff_min_num + r.below(18));
      static const size_t iv[] = {1, 3, 10, 100}; pcfg.interval = r.pick(iv); }
    static const size_t fmax[] = {1, 200, 4096, 1 << 20};
    size_t file_max = r.pick(fmax);
    sig.add(pcfg.buff_size); sig.add(pcfg.interval); sig.add(file_max); sig.add(nthreads); sig.add(nbursts);
    std::string workdir = vh::st().args.out.empty() ? "/tmp" : vh::st().args.out;
    std::string logdir = workdir + vh::fmt("/c09_%d_%llu", (int)getpid(), (unsigned long long)idx);
    std::string outfile = logdir + ".stdout";
    // Fault window for the file sink: during one burst the log directory is made unusable (moved away, a regular file
    // put in its place), so the back end cannot create or re-find its file; the sink keeps the batch and writes it once a
    // file can be created again (async_file_sink.cpp flush()). The window is healed before the next burst, which must
    // itself deliver at least one record to the sink (a flush only happens when records arrive) and keep it enabled.
    int fault_burst = -1;
    for (auto &sc : sinks) if (sc.kind == 1 && r.chance(1, 3)) {
        std::vector<int> ok;
        for (int b = 0; b + 1 < nbursts; ++b) {
            if (!sc.enabled[b] || !sc.enabled[b + 1]) continue;
            bool in_b = false, in_n = false;
            for (auto &v : per_thread) for (auto &c : v) { if (c.burst == b && passes(sc, c)) in_b = true; if (c.burst == b + 1 && passes(sc, c)) in_n = true; }
            if (in_b && in_n) ok.push_back(b);
        }
        if (!ok.empty()) fault_burst = ok[r.below(ok.size())];
    }
    sig.add(fault_burst);
    vh::st().case_desc = vh::fmt("threads=%d bursts=%d calls=%zu sinks=%zu pipe{buf=%zu,min=%zu,max=%zu,ival=%zu} file_max=%zu maxlens=[", nthreads, nbursts, total_calls, sinks.size(),
                                 pcfg.buff_size, pcfg.buff_min_num, pcfg.buff_max_num, pcfg.interval, file_max);
    for (auto m : burst_max) vh::st().case_desc += vh::fmt("%zu,", m);
    vh::st().case_desc += "]";

    // build sink objects
    std::unique_ptr<RecSink> rec(new RecSink);
    std::unique_ptr<log::AsyncFileSink> fsink;
    std::unique_ptr<log::AsyncStdoutSink> asout;
    std::unique_ptr<log::SyncStdoutSink> ssout;
    std::vector<log::Sink *> objs;
    bool uses_stdout = false;
    for (auto &s : sinks) {
        log::Sink *o = nullptr;
        if (s.kind == 0) o = rec.get();
        else if (s.kind == 1) { fsink.reset(new log::AsyncFileSink); fsink->setConfig(pcfg); fsink->setFilePath(logdir); fsink->setFilePrefix("c09"); fsink->setFileMaxSize(file_max); o = fsink.get(); }
        else if (s.kind == 2) { asout.reset(new log::AsyncStdoutSink); asout->setConfig(pcfg); o = asout.get(); uses_stdout = true; }
        else { ssout.reset(new log::SyncStdoutSink); o = ssout.get(); uses_stdout = true; }
        o->setLevel(s.def_level);
        for (auto &ml : s.mod_level) o->setLevel(kModules[ml.first], ml.second);
        objs.push_back(o);
    }
    // redirect fd 1 for the duration of the scenario (the harness reports only after restoring it)
    int saved_out = -1;
    fflush(stdout);
    if (uses_stdout) {
        saved_out = dup(1);
        int fd = open(outfile.c_str(), O_CREAT | O_WRONLY | O_TRUNC | O_APPEND, 0644);
        dup2(fd, 1); close(fd);
    }

    Barrier bar(nthreads + 1);
    std::vector<std::thread> th;
    for (int t = 0; t < nthreads; ++t) {
        th.emplace_back([&, t] {
            long tid = vc::gettid_();
            size_t k = 0;
            auto &cs = per_thread[t];
            for (int b = 0; b < nbursts; ++b) {
                bar.wait();          // main has configured sinks / max length for this burst
                for (; k < cs.size() && cs[k].burst == b; ++k) {
                    Call &c = cs[k];
                    c.tid = tid;
                    std::string text = make_text(c.thread, c.seq, c.len);
                    gettimeofday(&c.t0, nullptr);
                    if (c.puts) LogPrintfFunc(kModules[c.mod], kFuncs[c.func], kFiles[c.file], c.line, c.level, 0, text.c_str());
                    else if (c.seq & 1) LogPrintfFunc(kModules[c.mod], kFuncs[c.func], kFiles[c.file], c.line, c.level, 1, "%s", text.c_str());
                    else {      // split the text over two conversions so the formatter really formats
                        size_t h = text.size() / 2;
                        LogPrintfFunc(kModules[c.mod], kFuncs[c.func], kFiles[c.file], c.line, c.level, 1, "%.*s%s", (int)h, text.c_str(), text.c_str() + h);
                    }
                    gettimeofday(&c.t1, nullptr);
                }
                bar.wait();          // burst finished
            }
        });
    }
    std::vector<bool> is_on(sinks.size(), false);
    uint64_t transitions = 0;
    for (int b = 0; b < nbursts; ++b) {
        LogSetMaxLength(burst_max[b]);
        if (b > 0) for (size_t i = 0; i < sinks.size(); ++i) {     // re-level at the quiescent point
            const SinkCfg &sc = sinks[i];
            if (sc.def_level_b[b] != sc.def_level_b[b - 1]) { objs[i]->setLevel(sc.def_level_b[b]); vh::counter("relevel_default"); }
            for (int m = 0; m < 4; ++m) {
                auto pit = sc.mod_level_b[b - 1].find(m), nit = sc.mod_level_b[b].find(m);
                bool had = pit != sc.mod_level_b[b - 1].end(), has = nit != sc.mod_level_b[b].end();
                if (has && (!had || pit->second != nit->second)) { objs[i]->setLevel(kModules[m], nit->second); vh::counter(had ? "relevel_module_set_again" : "relevel_module_set_new"); }
                else if (had && !has) { objs[i]->unsetLevel(kModules[m]); vh::counter("relevel_module_unset"); }
            }
        }
        for (size_t i = 0; i < sinks.size(); ++i) {
            if (sinks[i].enabled[b] && !is_on[i]) { objs[i]->enable(); is_on[i] = true; ++transitions; }
            if (!sinks[i].enabled[b] && is_on[i]) { objs[i]->disable(); is_on[i] = false; ++transitions; }
        }
        bool faulted = false, had_dir = false;
        const std::string away = logdir + ".away";
        if (b == fault_burst) {
            // swap the directory and a regular file atomically (RENAME_EXCHANGE): the back end runs concurrently and would
            // otherwise re-create the directory between two separate steps, and the old files would be stranded
            faulted = true;
            int bf = open(away.c_str(), O_CREAT | O_WRONLY, 0644);
            if (bf >= 0) close(bf);
            for (int tries = 0; tries < 50; ++tries) {
                if (syscall(SYS_renameat2, AT_FDCWD, logdir.c_str(), AT_FDCWD, away.c_str(), 2 /*RENAME_EXCHANGE*/) == 0) { had_dir = true; break; }
                if (errno != ENOENT) break;
                if (rename(away.c_str(), logdir.c_str()) == 0) break;      // no directory yet: the file takes its place
            }
            if (had_dir) vh::counter("file_fault_windows_with_a_file_already_open");
            vh::counter("file_fault_windows");
        }
        bar.wait();
        bar.wait();
        if (faulted) {
            vc::sleep_us(1000L * (3 * (long)pcfg.interval + 50));     // let the back end meet the fault at least once
            if (had_dir) { if (syscall(SYS_renameat2, AT_FDCWD, away.c_str(), AT_FDCWD, logdir.c_str(), 2) == 0) unlink(away.c_str()); }
            else unlink(logdir.c_str());
        }
    }
    for (auto &t : th) t.join();
    for (size_t i = 0; i < sinks.size(); ++i) if (is_on[i]) { objs[i]->disable(); is_on[i] = false; }
    LogSetMaxLength(default_max);
    // everything logged before disable() must be visible NOW (read back immediately)
    fflush(stdout);
    std::string out_text;
    if (uses_stdout) { dup2(saved_out, 1); close(saved_out); out_text = slurp(outfile); unlink(outfile.c_str()); }
    std::vector<std::pair<std::string, std::string>> files;   // (name, content) in creation order
    if (fsink) {
        struct Ent { std::string ts; long suf; std::string name; };
        std::vector<Ent> ents;
        DIR *d = opendir(logdir.c_str());
        if (d) {
            while (dirent *e = readdir(d)) {
                std::string n = e->d_name;
                if (n.find("c09.") != 0 || n.find("latest") != std::string::npos) continue;
                // c09.YYYYmmdd_HHMMSS.pid.log[.N]
                Ent en; en.name = n; en.ts = n.substr(4, 15);
                size_t lp = n.find(".log");
                en.suf = (lp != std::string::npos && lp + 4 < n.size()) ? atol(n.c_str() + lp + 5) : 0;
                ents.push_back(en);
            }
            closedir(d);
        }
        std::sort(ents.begin(), ents.end(), [](const Ent &a, const Ent &b) { return a.ts != b.ts ? a.ts < b.ts : a.suf < b.suf; });
        for (auto &e : ents) files.push_back({e.name, slurp(logdir + "/" + e.name)});
    }
    fsink.reset(); asout.reset(); ssout.reset();
    rm_rf(logdir);

    // ---------------- offline check -----------------
    std::vector<Call> calls;
    for (auto &v : per_thread) for (auto &c : v) calls.push_back(c);
    std::vector<Violation> viols;
    bool nontrivial = nthreads >= 2;
    for (size_t i = 0; i < sinks.size(); ++i) {
        const SinkCfg &s = sinks[i];
        if (s.kind == 0) {
            compare("recording-sink", calls, s, rec->recs, true, viols);
            // microsecond timestamps inside the call window
            vh::counter("records_recording_sink", rec->recs.size());
            for (auto &rr : rec->recs) { if (rr.trunc) vh::counter("records_truncated"); if (rr.text.empty()) vh::counter("records_empty_text"); if (rr.text.size() > 2048) vh::counter("records_over_2048"); }
        } else {
            std::vector<Rec> recs;
            std::string all;
            const char *name = s.kind == 1 ? "file-sink" : s.kind == 2 ? "async-stdout-sink" : "sync-stdout-sink";
            bool bad = false;
            auto eat = [&](const std::string &content, const std::string &where) {
                size_t p = 0;
                while (p < content.size() && !bad) {
                    size_t q = content.find('\n', p);
                    if (q == std::string::npos) { viols.push_back({std::string(name) + "/record-split-or-incomplete", vh::fmt("%s ends in the middle of a line: '%.80s'", where.c_str(), content.c_str() + p)}); bad = true; break; }
                    Rec rr;
                    std::string ln = content.substr(p, q - p);
                    if (!parse_line(ln, rr)) { viols.push_back({std::string(name) + "/record-corrupt", vh::fmt("%s: line does not parse as one record (%zu bytes): '%.160s'", where.c_str(), ln.size(), ln.c_str())}); bad = true; break; }
                    recs.push_back(std::move(rr));
                    p = q + 1;
                }
            };
            if (s.kind == 1) {
                for (auto &f : files) eat(f.second, "file " + f.first);
                vh::counter("log_files", files.size());
                if (files.size() >= 2) { vh::counter("file_rollovers", files.size() - 1); nontrivial = nontrivial && true; }
                vh::counter("records_file_sink", recs.size());
            } else { eat(out_text, "stdout"); vh::counter(s.kind == 2 ? "records_async_stdout" : "records_sync_stdout", recs.size()); }
            if (!bad) compare(name, calls, s, recs, false, viols);
        }
        uint64_t rej = 0; for (auto &c : calls) if (s.enabled[c.burst] && !passes(s, c)) ++rej;
        vh::counter("calls_rejected_by_filter", rej);
        uint64_t off = 0; for (auto &c : calls) if (!s.enabled[c.burst]) ++off;
        vh::counter("calls_while_sink_disabled", off);
    }
    for (auto &v : viols) vh::viol(v.key, v.detail);
    vh::counter("calls", total_calls);
    vh::counter("enable_disable_transitions", transitions);
    vh::counter("verif_point_delays", vc::dcfg().delays.exchange(0));
    vh::counter_max("max_threads", nthreads);
    vh::note_case(sig.h, nontrivial);
    if (nontrivial && vh::want_sample()) {
        std::string s = "{\"config\":" + vh::jstr(vh::st().case_desc) + ",\"first_calls\":[";
        for (size_t i = 0; i < calls.size() && i < 5; ++i)
            s += vh::fmt("%s{\"thread\":%d,\"seq\":%d,\"level\":%d,\"module\":\"%s\",\"len\":%zu,\"max\":%zu,\"puts\":%d}", i ? "," : "", calls[i].thread, calls[i].seq, calls[i].level, kModules[calls[i].mod], calls[i].len, calls[i].maxlen, (int)calls[i].puts);
        s += "]}";
        vh::sample(s);
    }
}


// ---------------------------------------------------------------------------------------------------------------------
// mode "disable-race": disable() while other threads are inside log calls. Every call that had RETURNED before disable()
// was entered must be in the sink when disable() returns; a call entered after disable() returned must not be; calls
// that overlap disable() may or may not be; per thread the records are in call order, whole and unique; no crash, no hang.
void race_case(uint64_t idx, vh::Rng &r) {
    static const int dmax[] = {0, 20, 100, 300};
    vc::set_delays(vh::mix(vh::st().args.seed, idx), (int)r.below(10), r.pick(dmax));
    vh::Sig sig;
    int nthreads = 1 + (int)r.below(5);
    int per = 150 + (int)r.below(1200);
    int kind = (int)r.below(4);                      // 0 recording sink, 1..3 AsyncFileSink
    log::AsyncSink::Config pcfg;
    { static const size_t bs[] = {64, 100, 1024, 10240}; pcfg.buff_size = r.pick(bs); pcfg.buff_min_num = 1 + r.below(3); pcfg.buff_max_num = std::max<size_t>(2, pcfg.buff_min_num + r.below(18));
      static const size_t iv[] = {1, 3, 10, 100}; pcfg.interval = r.pick(iv); }
    static const size_t fmax[] = {200, 4096, 1 << 20};
    size_t file_max = r.pick(fmax);
    int main_pause_us = (int)r.below(r.chance(1, 3) ? 200 : 4000);
    size_t maxtext = r.chance(1, 4) ? 600 : 60;
    sig.add(nthreads); sig.add(per); sig.add(kind); sig.add(pcfg.buff_size); sig.add(pcfg.interval); sig.add(file_max); sig.add(main_pause_us);
    std::string workdir = vh::st().args.out.empty() ? "/tmp" : vh::st().args.out;
    std::string logdir = workdir + vh::fmt("/c09r_%d_%llu", (int)getpid(), (unsigned long long)idx);
    vh::st().case_desc = vh::fmt("disable-race threads=%d calls<=%d sink=%s pipe{buf=%zu,min=%zu,max=%zu,ival=%zu} file_max=%zu pause=%dus", nthreads, per, kind ? "file" : "recording",
                                 pcfg.buff_size, pcfg.buff_min_num, pcfg.buff_max_num, pcfg.interval, file_max, main_pause_us);
    std::unique_ptr<RecSink> rec;
    std::unique_ptr<log::AsyncFileSink> fsink;
    log::Sink *sink = nullptr;
    if (kind == 0) { rec.reset(new RecSink); sink = rec.get(); }
    else { fsink.reset(new log::AsyncFileSink); fsink->setConfig(pcfg); fsink->setFilePath(logdir); fsink->setFilePrefix("c09"); fsink->setFileMaxSize(file_max); sink = fsink.get(); }
    sink->setLevel(LOG_LEVEL_MAX);
    sink->enable();

    std::atomic<uint64_t> clk{1};
    std::atomic<bool> stop{false};
    struct TCall { uint64_t call = 0, ret = 0; };
    std::vector<std::vector<TCall>> calls(nthreads);
    for (auto &v : calls) v.resize(per);
    std::vector<std::atomic<int>> made(nthreads);
    for (auto &m : made) m.store(0);
    std::vector<std::thread> th;
    for (int t = 0; t < nthreads; ++t) {
        th.emplace_back([&, t] {
            vh::Rng lr(vh::mix(idx, 1000 + t));
            for (int i = 0; i < per && !stop.load(std::memory_order_acquire); ++i) {
                std::string text = make_text(t, i, 12 + lr.below(maxtext));
                calls[t][i].call = clk.fetch_add(1);
                LogPrintfFunc(kModules[t & 3], kFuncs[i & 3], kFiles[i & 3], 100 + i, LOG_LEVEL_INFO, 0, text.c_str());
                calls[t][i].ret = clk.fetch_add(1);
                made[t].store(i + 1, std::memory_order_release);
                if ((i & 15) == 15 && lr.chance(1, 3)) vc::sleep_us((long)lr.below(60));
            }
        });
    }
    // let some calls complete first (otherwise "returned before disable" would be empty)
    while (made[0].load(std::memory_order_acquire) < 3) std::this_thread::yield();
    vc::sleep_us(main_pause_us);
    uint64_t d0 = clk.fetch_add(1);
    sink->disable();
    uint64_t d1 = clk.fetch_add(1);
    // read back at once, while the threads are still logging into a front end that no longer has this sink
    std::vector<Rec> recs;
    bool bad = false;
    if (kind == 0) recs = rec->recs;
    else {
        struct Ent { std::string ts; long suf; std::string name; };
        std::vector<Ent> ents;
        DIR *d = opendir(logdir.c_str());
        if (d) {
            while (dirent *e = readdir(d)) {
                std::string n = e->d_name;
                if (n.find("c09.") != 0 || n.find("latest") != std::string::npos) continue;
                Ent en; en.name = n; en.ts = n.substr(4, 15);
                size_t lp = n.find(".log");
                en.suf = (lp != std::string::npos && lp + 4 < n.size()) ? atol(n.c_str() + lp + 5) : 0;
                ents.push_back(en);
            }
            closedir(d);
        }
        std::sort(ents.begin(), ents.end(), [](const Ent &a, const Ent &b) { return a.ts != b.ts ? a.ts < b.ts : a.suf < b.suf; });
        for (auto &e : ents) {
            std::string content = slurp(logdir + "/" + e.name);
            size_t p = 0;
            while (p < content.size() && !bad) {
                size_t q = content.find('\n', p);
                if (q == std::string::npos) { vh::viol("disable-race/file-sink/record-split-or-incomplete", vh::fmt("file %s ends in the middle of a line: '%.80s'", e.name.c_str(), content.c_str() + p)); bad = true; break; }
                Rec rr;
                std::string ln = content.substr(p, q - p);
                if (!parse_line(ln, rr)) { vh::viol("disable-race/file-sink/record-corrupt", vh::fmt("file %s: line does not parse as one record (%zu bytes): '%.160s'", e.name.c_str(), ln.size(), ln.c_str())); bad = true; break; }
                recs.push_back(std::move(rr));
                p = q + 1;
            }
        }
    }
    vc::sleep_us(300);
    stop.store(true, std::memory_order_release);
    for (auto &t : th) t.join();
    fsink.reset();
    rm_rf(logdir);

    const char *sname = kind ? "file-sink" : "recording-sink";
    uint64_t n_before = 0, n_overlap = 0, n_after = 0, n_seen_overlap = 0;
    if (!bad) {
        std::vector<std::vector<int>> seen(nthreads);
        for (auto &rr : recs) {
            int t = -1, q = -1; size_t l = 0;
            if (sscanf(rr.text.c_str(), "T%d:%d:%zu:", &t, &q, &l) != 3 || t < 0 || t >= nthreads || q < 0 || q >= per || rr.text != make_text(t, q, l)) {
                vh::viol(std::string("disable-race/") + sname + "/foreign-or-damaged-record", vh::fmt("record text '%.80s' is not the text of any call", rr.text.c_str())); bad = true; break;
            }
            seen[t].push_back(q);
        }
        for (int t = 0; t < nthreads && !bad; ++t) {
            for (size_t i = 1; i < seen[t].size(); ++i)
                if (seen[t][i] <= seen[t][i - 1]) { vh::viol(std::string("disable-race/") + sname + (seen[t][i] == seen[t][i - 1] ? "/record-duplicated" : "/record-order"), vh::fmt("thread %d: record of call %d follows record of call %d", t, seen[t][i], seen[t][i - 1])); bad = true; break; }
            if (bad) break;
            std::set<int> have(seen[t].begin(), seen[t].end());
            int m = made[t].load();
            for (int i = 0; i < m; ++i) {
                const TCall &c = calls[t][i];
                bool in = have.count(i) != 0;
                if (c.ret < d0) { ++n_before; if (!in) { vh::viol(std::string("disable-race/") + sname + "/record-lost", vh::fmt("thread %d call %d had returned (tick %llu) before disable() was entered (tick %llu) but its record is not in the sink when disable() returns (%zu records of that thread present)", t, i, (unsigned long long)c.ret, (unsigned long long)d0, seen[t].size())); bad = true; break; } }
                else if (c.call > d1) { ++n_after; if (in) { vh::viol(std::string("disable-race/") + sname + "/record-after-disable-returned", vh::fmt("thread %d call %d was entered (tick %llu) after disable() returned (tick %llu) yet its record is in the sink", t, i, (unsigned long long)c.call, (unsigned long long)d1)); bad = true; break; } }
                else { ++n_overlap; if (in) ++n_seen_overlap; }
            }
        }
    }
    vh::counter("race_disable_cases");
    vh::counter(kind ? "race_disable_cases_file_sink" : "race_disable_cases_recording_sink");
    vh::counter("race_disable_calls_returned_before_disable", n_before);
    vh::counter("race_disable_calls_overlapping_disable", n_overlap);
    vh::counter("race_disable_overlapping_calls_recorded", n_seen_overlap);
    vh::counter("race_disable_calls_entered_after_disable_returned", n_after);
    vh::counter("verif_point_delays", vc::dcfg().delays.exchange(0));
    vh::note_case(sig.h, nthreads >= 2 && n_overlap > 0);
    if (vh::want_sample()) vh::sample("{\"config\":" + vh::jstr(vh::st().case_desc) + vh::fmt(",\"returned_before\":%llu,\"overlapping\":%llu,\"overlapping_recorded\":%llu,\"entered_after\":%llu}", (unsigned long long)n_before, (unsigned long long)n_overlap, (unsigned long long)n_seen_overlap, (unsigned long long)n_after));
}

void any_case(uint64_t idx, vh::Rng &r) {
    if (vh::st().args.mode == "disable-race") race_case(idx, r);
    else one_case(idx, r);
}

}  // namespace

int main(int argc, char **argv) { return vh::run(argc, argv, any_case); }
