// C14 shared pieces: random JSON / JSON-RPC message generator, the three real framings behind one
// factory, an event recorder on the proto callbacks, the documented driver loop (append; while
// onRecvData(buffer) > 0 consume; < 0 = connection reset) feeding exactly sized heap blocks, and
// an independent frame encoder (the harness's own, never the library's) for hand-made streams.
#ifndef VERIF_C14_COMMON_HPP
#define VERIF_C14_COMMON_HPP

#include "common/vh.hpp"

#include <tbox/base/json.hpp>
#include <tbox/jsonrpc/proto.h>
#include <tbox/jsonrpc/protos/header_stream_proto.h>
#include <tbox/jsonrpc/protos/raw_stream_proto.h>
#include <tbox/jsonrpc/protos/packet_proto.h>

#include <cmath>
#include <climits>
#include <memory>
#include <typeinfo>
#include <cxxabi.h>

namespace c14 {

using tbox::Json;
using tbox::jsonrpc::Proto;

enum ProtoKind { PK_HEADER = 0, PK_RAW = 1, PK_PACKET = 2 };
inline const char *pk_name(int k) { return k == PK_HEADER ? "header" : k == PK_RAW ? "raw" : "packet"; }

inline std::unique_ptr<Proto> make_proto(int kind, uint16_t magic) {
    if (kind == PK_HEADER) return std::unique_ptr<Proto>(new tbox::jsonrpc::HeaderStreamProto(magic));
    if (kind == PK_RAW) return std::unique_ptr<Proto>(new tbox::jsonrpc::RawStreamProto);
    return std::unique_ptr<Proto>(new tbox::jsonrpc::PacketProto);
}

inline std::string demangle(const char *n) {
    int st = 0;
    char *d = abi::__cxa_demangle(n, nullptr, nullptr, &st);
    std::string r = (st == 0 && d) ? d : n;
    free(d);
    return r;
}

//! printable excerpt of a byte string for witnesses
inline std::string show(const std::string &s, size_t max = 160) {
    std::string o;
    for (size_t i = 0; i < s.size() && i < max; ++i) {
        unsigned char c = (unsigned char)s[i];
        if (c >= 0x20 && c < 0x7f && c != '\\') o += (char)c;
        else { char b[8]; snprintf(b, sizeof b, "\\x%02x", c); o += b; }
    }
    if (s.size() > max) o += vh::fmt("...(%zu bytes)", s.size());
    return o;
}

// ---------------------------------------------------------------------------------------------
// random JSON
// ---------------------------------------------------------------------------------------------
struct JFeat {            //! what the generated text contains (coverage counters, non-triviality)
    int max_depth = 0;
    bool str_bracket = false, str_quote = false, str_backslash = false, str_end_backslash = false,
         str_utf8 = false, str_ctrl = false, big_number = false, floating = false;
    void merge(const JFeat &o) {
        if (o.max_depth > max_depth) max_depth = o.max_depth;
        str_bracket |= o.str_bracket; str_quote |= o.str_quote; str_backslash |= o.str_backslash;
        str_end_backslash |= o.str_end_backslash; str_utf8 |= o.str_utf8; str_ctrl |= o.str_ctrl;
        big_number |= o.big_number; floating |= o.floating;
    }
};

struct JGen {
    vh::Rng &r;
    JFeat f;
    int budget = 60;          //! rough cap on the number of nodes of one value
    explicit JGen(vh::Rng &rr) : r(rr) {}

    std::string str() {
        static const std::string nul(1, '\0');
        static const char *frag[] = {
            "\"", "\\", "\\\"", "{", "}", "[", "]", "}{", "][", "{\"", "\"}", "[\"", "\"]", ":", ",", " ", "\n", "\t", "\r",
            "\b", "\f", "\x01", "\x1f", "\x7f", "/", "\xc3\xa9", "\xe4\xb8\xad", "\xf0\x9f\x98\x80", "\xc2\x80",
            "\xef\xbf\xbf", "\xf4\x8f\xbf\xbf", "abc", "jsonrpc", "method", "id", "\\u0041", "true", "null", "0", "\\n",
            "{\"jsonrpc\":\"2.0\"}", "]]]", "}}}", "\"\"", "\\\\", "x", "Z", "7",
        };
        std::string s;
        int n = (int)r.below(7);
        if (r.chance(1, 12)) n += 20;
        for (int i = 0; i < n; ++i) {
            if (r.chance(1, 40)) { s += nul; f.str_ctrl = true; continue; }
            const char *p = r.pick(frag);
            s += p;
        }
        if (r.chance(1, 8)) { s.append((size_t)r.range(1, 4), '\\'); }
        for (unsigned char c : s) {
            if (c == '{' || c == '}' || c == '[' || c == ']') f.str_bracket = true;
            else if (c == '"') f.str_quote = true;
            else if (c == '\\') f.str_backslash = true;
            else if (c >= 0x80) f.str_utf8 = true;
            else if (c < 0x20) f.str_ctrl = true;
        }
        if (!s.empty() && s[s.size() - 1] == '\\') f.str_end_backslash = true;
        return s;
    }

    Json number() {
        switch (r.below(10)) {
            case 0: return Json((int)r.range(-9, 9));
            case 1: return Json((int64_t)r.range(-100000, 100000));
            case 2: { static const int64_t v[] = {INT_MAX, INT_MIN, (int64_t)INT_MAX + 1, (int64_t)INT_MIN - 1, INT64_MAX, INT64_MIN, 4294967295LL, 4294967296LL};
                      f.big_number = true; return Json(r.pick(v)); }
            case 3: { static const uint64_t v[] = {UINT64_MAX, (uint64_t)INT64_MAX + 1, 9007199254740993ULL};
                      f.big_number = true; return Json(r.pick(v)); }
            case 4: { static const double v[] = {0.5, -0.25, 1e10, -1e-7, 3.141592653589793, 1e300, -1e-300, 123456.789, 0.1, 2.5e-5, 1.7976931348623157e308, 5e-324};
                      f.floating = true; return Json(r.pick(v)); }
            case 5: { uint64_t b = r.next(); double d; memcpy(&d, &b, 8);
                      if (!std::isfinite(d)) d = 1.5;
                      f.floating = true; return Json(d); }
            case 6: return Json((uint64_t)r.next());
            case 7: return Json((int64_t)r.next());
            default: return Json((int)r.range(0, 1000));
        }
    }

    Json value(int depth, int max_depth) {
        if (depth > f.max_depth) f.max_depth = depth;
        --budget;
        unsigned t = (depth >= max_depth || budget <= 0) ? (unsigned)r.below(5) : (unsigned)r.below(9);
        switch (t) {
            case 0: return Json();
            case 1: return Json(r.chance(1, 2));
            case 2: return number();
            case 3: case 4: return Json(str());
            case 5: case 6: {
                Json a = Json::array();
                int n = (int)r.below(5);
                for (int i = 0; i < n; ++i) a.push_back(value(depth + 1, max_depth));
                return a;
            }
            default: {
                Json o = Json::object();
                int n = (int)r.below(5);
                for (int i = 0; i < n; ++i) {
                    std::string k = r.chance(1, 3) ? str() : vh::fmt("k%d", (int)r.below(20));
                    o[k] = value(depth + 1, max_depth);
                }
                return o;
            }
        }
    }

    //! params/result of a message: usually structured, sometimes scalar or null
    Json payload() {
        budget = 40 + (int)r.below(60);
        int md = (int)r.range(1, 6);
        if (r.chance(1, 8)) return value(0, 0);
        if (r.chance(1, 2)) {
            Json o = Json::object();
            int n = (int)r.range(0, 4);
            for (int i = 0; i < n; ++i) o[r.chance(1, 4) ? str() : vh::fmt("p%d", i)] = value(1, md);
            if (md > 0 && f.max_depth < 1 && n) f.max_depth = 1;
            return o;
        }
        Json a = Json::array();
        int n = (int)r.range(0, 4);
        for (int i = 0; i < n; ++i) a.push_back(value(1, md));
        return a;
    }
};

// ---------------------------------------------------------------------------------------------
// JSON-RPC messages and what a receiver must be told about them
// ---------------------------------------------------------------------------------------------
struct Msg {
    enum Kind { REQ, RESULT, ERROR } kind = REQ;
    int id = 0;                 //! 0 for a notification
    std::string method;
    Json payload;               //! params (REQ; null = none) or result (RESULT)
    int errcode = 0;
    std::string errmsg;
};

//! equality of JSON values that also tells 1 from 1.0 (nlohmann's == does not) but not 5 (signed) from 5 (unsigned)
inline bool same_json(const Json &a, const Json &b) {
    if (a.is_number_float() != b.is_number_float()) return false;
    if (a.is_array()) {
        if (!b.is_array() || a.size() != b.size()) return false;
        for (size_t i = 0; i < a.size(); ++i) if (!same_json(a[i], b[i])) return false;
        return true;
    }
    if (a.is_object()) {
        if (!b.is_object() || a.size() != b.size()) return false;
        auto ia = a.begin(); auto ib = b.begin();
        for (; ia != a.end(); ++ia, ++ib) { if (ia.key() != ib.key() || !same_json(ia.value(), ib.value())) return false; }
        return true;
    }
    if (a.is_number_float()) { double x = a.get<double>(), y = b.get<double>(); return memcmp(&x, &y, sizeof x) == 0 || x == y; }
    return a == b;
}

struct Event {
    char type = 'Q';            //! 'Q' request callback, 'R' respond callback
    int id = 0;
    std::string method;
    int errcode = 0;
    Json js;                    //! params / result
    bool operator==(const Event &o) const {
        return type == o.type && id == o.id && method == o.method && errcode == o.errcode && same_json(js, o.js);
    }
    std::string text() const {
        std::string d = js.dump(-1, ' ', false, Json::error_handler_t::replace);
        if (type == 'Q') return vh::fmt("request(id=%d,method=%s,params=%s)", id, show(method, 60).c_str(), show(d, 120).c_str());
        return vh::fmt("respond(id=%d,errcode=%d,result=%s)", id, errcode, show(d, 120).c_str());
    }
};

inline Event expected_event(const Msg &m) {
    Event e;
    if (m.kind == Msg::REQ) { e.type = 'Q'; e.id = m.id; e.method = m.method; e.js = m.payload; }
    else if (m.kind == Msg::RESULT) { e.type = 'R'; e.id = m.id; e.errcode = 0; e.js = m.payload; }
    else { e.type = 'R'; e.id = m.id; e.errcode = m.errcode; e.js = Json(); }
    return e;
}

inline Msg gen_msg(vh::Rng &r, JGen &g) {
    Msg m;
    unsigned k = (unsigned)r.below(10);
    m.kind = k < 5 ? Msg::REQ : (k < 8 ? Msg::RESULT : Msg::ERROR);
    static const int ids[] = {1, 2, 3, 7, 100, 65535, 65536, INT_MAX, INT_MIN, -1, -32768};
    m.id = r.chance(1, 3) ? r.pick(ids) : (int)r.range(1, 5000);
    if (m.kind == Msg::REQ) {
        if (r.chance(1, 4)) m.id = 0;   // notification
        static const char *names[] = {"ping", "echo", "a.b.c", "rpc.sum", "M", ""};
        m.method = r.chance(1, 4) ? g.str() : std::string(r.pick(names));
        if (!r.chance(1, 6)) m.payload = g.payload();
    } else if (m.kind == Msg::RESULT) {
        m.payload = g.payload();
    } else {
        static const int codes[] = {-32700, -32600, -32601, -32602, -32603, -32000, 0, 1, -1, INT_MAX, INT_MIN};
        m.errcode = r.chance(2, 3) ? r.pick(codes) : (int)r.range(-40000, 40000);
        if (r.chance(1, 2)) m.errmsg = g.str();
    }
    return m;
}

//! the message as a JSON object built by the harness (independent of Proto::send*)
inline Json msg_json(const Msg &m, bool explicit_null_params = false) {
    Json j = Json::object();
    j["jsonrpc"] = "2.0";
    if (m.kind == Msg::REQ) {
        j["method"] = m.method;
        if (m.id != 0) j["id"] = m.id;
        if (!m.payload.is_null() || explicit_null_params) j["params"] = m.payload;
    } else if (m.kind == Msg::RESULT) {
        j["id"] = m.id;
        j["result"] = m.payload;
    } else {
        j["id"] = m.id;
        Json e = Json::object();
        e["code"] = m.errcode;
        if (!m.errmsg.empty()) e["message"] = m.errmsg;
        j["error"] = e;
    }
    return j;
}

//! harness-side framing of a JSON text (big-endian magic + length, or the bare text)
inline std::string frame_text(int kind, uint16_t magic, const std::string &text) {
    if (kind != PK_HEADER) return text;
    std::string o;
    uint32_t n = (uint32_t)text.size();
    o += (char)(magic >> 8); o += (char)(magic & 0xff);
    o += (char)(n >> 24); o += (char)((n >> 16) & 0xff); o += (char)((n >> 8) & 0xff); o += (char)(n & 0xff);
    return o + text;
}
inline std::string header_bytes(uint16_t magic, uint32_t n) {
    std::string o;
    o += (char)(magic >> 8); o += (char)(magic & 0xff);
    o += (char)(n >> 24); o += (char)((n >> 16) & 0xff); o += (char)((n >> 8) & 0xff); o += (char)(n & 0xff);
    return o;
}

//! the message written by the framing's own encoder
inline std::string encode_with_library(Proto &p, const Msg &m) {
    std::string out;
    int calls = 0;
    p.setSendCallback([&](const void *d, size_t n) { out.append(static_cast<const char *>(d), n); ++calls; });
    if (m.kind == Msg::REQ) {
        if (m.payload.is_null()) p.sendRequest(m.id, m.method);
        else p.sendRequest(m.id, m.method, m.payload);
    } else if (m.kind == Msg::RESULT) p.sendResult(m.id, m.payload);
    else p.sendError(m.id, m.errcode, m.errmsg);
    p.setSendCallback(nullptr);
    if (calls != 1) vh::viol("encoder/send-callback-count", vh::fmt("one send* call produced %d send callbacks", calls));
    return out;
}

// ---------------------------------------------------------------------------------------------
// recorder + driver
// ---------------------------------------------------------------------------------------------
struct Recorder {
    std::vector<Event> ev;
    void attach(Proto &p) {
        p.setRecvCallback(
            [this](int id, const std::string &method, const Json &params) {
                Event e; e.type = 'Q'; e.id = id; e.method = method; e.js = params; ev.push_back(std::move(e));
            },
            [this](int id, int errcode, const Json &result) {
                Event e; e.type = 'R'; e.id = id; e.errcode = errcode; e.js = result; ev.push_back(std::move(e));
            });
    }
};

struct CallStat { uint64_t calls = 0, ret_pos = 0, ret_zero = 0, ret_neg = 0, ret_zero_partial = 0, exceptions = 0; };

//! one onRecvData call on an exactly sized heap copy; exceptions and impossible return values are violations
inline ssize_t call_recv(Proto &p, int kind, const char *d, size_t n, CallStat &cs) {
    std::unique_ptr<char[]> blk(new char[n]);     // exactly n bytes: a one-byte over-read is an ASan report
    char *q = blk.get();
    if (n) memcpy(q, d, n);
    ++cs.calls;
    ssize_t ret = 0;
    try {
        ret = p.onRecvData(q, n);
    } catch (const std::exception &e) {
        ++cs.exceptions;
        vh::viol(std::string("totality/") + pk_name(kind) + "/exception-escaped",
                 vh::fmt("onRecvData(%zu bytes) threw %s: %s; input=%s", n, demangle(typeid(e).name()).c_str(), e.what(), show(std::string(d, n), 200).c_str()));
        return -1000;
    } catch (...) {
        ++cs.exceptions;
        vh::viol(std::string("totality/") + pk_name(kind) + "/exception-escaped",
                 vh::fmt("onRecvData(%zu bytes) threw a non-std exception; input=%s", n, show(std::string(d, n), 200).c_str()));
        return -1000;
    }
    if (ret > (ssize_t)n) {
        vh::viol(std::string("totality/") + pk_name(kind) + "/return-exceeds-size",
                 vh::fmt("onRecvData(%zu bytes) returned %zd; input=%s", n, ret, show(std::string(d, n), 200).c_str()));
        ret = (ssize_t)n;
    }
    if (ret > 0) ++cs.ret_pos; else if (ret == 0) { ++cs.ret_zero; if (n) ++cs.ret_zero_partial; } else ++cs.ret_neg;
    return ret;
}

//! the driver loop of the examples: append, then while (ret > 0) consume; ret < 0 = reset; 0 = wait for more
struct Driver {
    Proto &p;
    int kind;
    std::string buf;
    bool closed = false;
    ssize_t err = 0;
    size_t consumed = 0;
    CallStat cs;
    Driver(Proto &pp, int k) : p(pp), kind(k) {}
    void feed(const char *d, size_t n) {
        if (closed) return;
        buf.append(d, n);
        while (!buf.empty()) {
            ssize_t ret = call_recv(p, kind, buf.data(), buf.size(), cs);
            if (ret > 0) { buf.erase(0, (size_t)ret); consumed += (size_t)ret; }
            else if (ret < 0) { closed = true; err = ret; break; }
            else break;
        }
    }
    void feed(const std::string &s) { feed(s.data(), s.size()); }
};

inline void add_callstat_counters(const CallStat &cs, const char *pfx) {
    vh::counter(std::string(pfx) + "_calls", cs.calls);
    vh::counter(std::string(pfx) + "_ret_consumed", cs.ret_pos);
    vh::counter(std::string(pfx) + "_ret_zero_incomplete", cs.ret_zero_partial);
    vh::counter(std::string(pfx) + "_ret_negative", cs.ret_neg);
}

//! first index at which two event sequences differ (or -1)
inline long first_diff(const std::vector<Event> &a, const std::vector<Event> &b) {
    size_t n = a.size() < b.size() ? a.size() : b.size();
    for (size_t i = 0; i < n; ++i) if (!(a[i] == b[i])) return (long)i;
    return a.size() == b.size() ? -1 : (long)n;
}

inline std::string diff_text(const std::vector<Event> &got, const std::vector<Event> &want) {
    long i = first_diff(got, want);
    if (i < 0) return "equal";
    std::string g = (size_t)i < got.size() ? got[(size_t)i].text() : "<nothing>";
    std::string w = (size_t)i < want.size() ? want[(size_t)i].text() : "<nothing>";
    return vh::fmt("got %zu events, want %zu; first difference at #%ld: got %s want %s", got.size(), want.size(), i, g.c_str(), w.c_str());
}

}  // namespace c14

#endif
