// C05: eventx::ThreadPool / eventx::WorkThread — exactly-once on workers, answers consistent with the
// history, priority+FIFO pick order, worker bound, cleanup terminates. The script runs on the loop thread
// (a chain of runNext tasks while the loop is running); task bodies record START/END with a global logical
// clock into per-task atomics (no locks in the recorder); the history is checked after the loop exited.
#include "common/vh.hpp"
#include "common/conc.hpp"
#include <tbox/event/loop.h>
#include <tbox/eventx/thread_pool.h>
#include <tbox/eventx/work_thread.h>
#include <memory>
#include <vector>
#include <atomic>
#include <stdexcept>
#include <climits>
#include <thread>
#include <algorithm>

using namespace tbox;

VC_DEFINE_POINT()

namespace {

struct TaskRec {
    int prio = 0, body = 0, gate = -1;
    bool has_cb = false, accepted = false;
    uint64_t exec_call = 0, exec_ret = 0;
    int round = 0;
    cabinet::Token token;
    std::atomic<uint32_t> start_count{0}, end_count{0}, cb_count{0};
    std::atomic<uint64_t> start_tick{0}, end_tick{0}, cb_tick{0};
    std::atomic<long> start_tid{0}, cb_tid{0};
    int cancel_ok = 0;          // number of cancel()==0 answers
    uint64_t cancel_ok_ret = 0;
    bool parked_batch = false;  // submitted while the single worker was parked (order oracle)
};

struct Query { int kind; int task; uint64_t call, ret; int result; };

enum StepKind { S_EXEC, S_STATUS, S_CANCEL, S_SNAP, S_RELEASE, S_SPIN, S_QUIESCE, S_CLEANUP, S_REINIT, S_WAIT_STARTED, S_MARK_PARK_BEGIN, S_MARK_PARK_END, S_LOOP_GAP, S_WAIT_END };
struct Step { StepKind k; int a = 0, b = 0, c = 0, d = 0; };

struct IPool {
    virtual ~IPool() {}
    virtual bool init(int mn, int mx) = 0;
    virtual cabinet::Token exec(std::function<void()> body, std::function<void()> cb, int prio) = 0;
    virtual int status(cabinet::Token t) = 0;   // 0 waiting 1 executing 2 notfound
    virtual int cancel(cabinet::Token t) = 0;
    virtual void cleanup() = 0;
    virtual bool snapshot(size_t &threads, size_t &idle, size_t &doing, size_t &undo) = 0;
};
struct TPool : IPool {
    eventx::ThreadPool p;
    explicit TPool(event::Loop *l) : p(l) {}
    bool init(int mn, int mx) override { return p.initialize(mn, mx); }
    cabinet::Token exec(std::function<void()> body, std::function<void()> cb, int prio) override {
        if (cb) return p.execute(body, cb, prio);
        return p.execute(body, prio);
    }
    int status(cabinet::Token t) override { return (int)p.getTaskStatus(t); }
    int cancel(cabinet::Token t) override { return p.cancel(t); }
    void cleanup() override { p.cleanup(); }
    bool snapshot(size_t &threads, size_t &idle, size_t &doing, size_t &undo) override {
        auto s = p.snapshot(); threads = s.thread_num; idle = s.idle_thread_num; doing = s.doing_task_num;
        undo = 0; for (auto n : s.undo_task_num) undo += n; return true;
    }
};
struct WPool : IPool {
    std::unique_ptr<eventx::WorkThread> w;
    event::Loop *l;
    int cfg;    // 0: default loop given, per-task loop omitted; 1: no default loop, explicit per-task loop; 2: both given
    WPool(event::Loop *lp, int c) : l(lp), cfg(c) {}
    bool init(int, int) override { w.reset(cfg == 1 ? new eventx::WorkThread() : new eventx::WorkThread(l)); return true; }
    cabinet::Token exec(std::function<void()> body, std::function<void()> cb, int) override {
        if (cb) return w->execute(body, cb, cfg == 0 ? nullptr : l);
        return w->execute(body);
    }
    int status(cabinet::Token t) override { return (int)w->getTaskStatus(t); }
    int cancel(cabinet::Token t) override { return w->cancel(t); }
    void cleanup() override { w->cleanup(); }
    bool snapshot(size_t &, size_t &, size_t &, size_t &) override { return false; }
};

struct Scenario {
    bool work_thread = false;
    int wt_cfg = 0;
    int mn = 0, mx = 1;
    std::vector<Step> steps;
    std::vector<std::unique_ptr<TaskRec>> tasks;
    std::vector<std::unique_ptr<std::atomic<int>>> gates;
    std::vector<Query> queries;
    std::atomic<int> inflight{0}, max_inflight{0};
    long loop_tid = 0;
    uint64_t cleanup_call[4] = {0, 0, 0, 0}, cleanup_ret[4] = {0, 0, 0, 0};
    int round = 0;
    bool ready = false;
    bool quiesce_failed = false;
    bool in_gap = false;        // the loop was stopped on purpose; the script continues after a pause with the loop not running
    int gap_us = 0;
    int quiesce_polls = 0;
    std::vector<std::vector<int>> park_batches;
    std::vector<int> cur_park;
    bool parking = false;
    size_t pc = 0;
    event::Loop *loop = nullptr;
    IPool *pool = nullptr;
    std::string desc;
};

void body_fn(Scenario *S, TaskRec *T) {
    T->start_tid.store(vc::gettid_(), std::memory_order_relaxed);
    T->start_tick.store(vc::tick(), std::memory_order_relaxed);
    T->start_count.fetch_add(1, std::memory_order_relaxed);
    int n = S->inflight.fetch_add(1) + 1;
    int m = S->max_inflight.load();
    while (n > m && !S->max_inflight.compare_exchange_weak(m, n)) {}
    switch (T->body) {
        case 1: { auto t0 = std::chrono::steady_clock::now(); while (std::chrono::steady_clock::now() - t0 < std::chrono::microseconds(20)) {} break; }
        case 2: vc::sleep_us(200 + (std::max(-2, std::min(2, T->prio)) + 2) * 150); break;
        case 3: {
            auto &g = *S->gates[T->gate];
            for (int i = 0; i < 400000 && g.load() == 0; ++i) vc::sleep_us(50);
            break;
        }
        default: break;
    }
    S->inflight.fetch_sub(1);
    T->end_tick.store(vc::tick(), std::memory_order_relaxed);
    T->end_count.fetch_add(1, std::memory_order_relaxed);
    // body 4 leaves by exception: the pool catches it (CatchThrow) and must treat the task as finished like any other
    if (T->body == 4) throw std::runtime_error("c05: task body leaves by exception");
}

bool all_settled(Scenario &S) {
    for (auto &t : S.tasks) {
        if (!t->accepted || t->cancel_ok || t->round != S.round) continue;
        if (t->end_count.load() == 0) return false;
        if (t->has_cb && t->cb_count.load() == 0) return false;
    }
    return true;
}

void run_step(Scenario *S);
void schedule(Scenario *S) { S->loop->runNext([S] { run_step(S); }); }

void run_step(Scenario *Sp) {
    Scenario &S = *Sp;
    if (S.pc >= S.steps.size()) { S.loop->exitLoop(); return; }
    Step st = S.steps[S.pc];
    bool advance = true;
    switch (st.k) {
        case S_EXEC: {
            std::unique_ptr<TaskRec> T(new TaskRec);
            T->prio = st.a; T->body = st.b; T->gate = st.c; T->has_cb = st.d != 0; T->round = S.round;
            TaskRec *t = T.get();
            S.tasks.push_back(std::move(T));
            std::function<void()> cb;
            if (t->has_cb) cb = [t] { t->cb_tid.store(vc::gettid_(), std::memory_order_relaxed); t->cb_tick.store(vc::tick(), std::memory_order_relaxed); t->cb_count.fetch_add(1, std::memory_order_relaxed); };
            t->exec_call = vc::tick();
            t->token = S.pool->exec([Sp, t] { body_fn(Sp, t); }, cb, t->prio);
            t->exec_ret = vc::tick();
            t->accepted = !t->token.isNull();
            if (S.ready && !t->accepted) vh::viol("api/execute-refused", "execute() returned a null token on an initialised pool");
            if (!S.ready && t->accepted) vh::counter("accepted_while_not_ready");
            if (S.parking && t->accepted) { t->parked_batch = true; S.cur_park.push_back((int)S.tasks.size() - 1); }
            break;
        }
        case S_STATUS: case S_CANCEL: {
            if (S.tasks.empty()) break;
            int ti = st.a % (int)S.tasks.size();
            TaskRec *t = S.tasks[ti].get();
            if (!t->accepted) break;
            if (S.work_thread && t->round != S.round) break;   // a new WorkThread object: old tokens belong to the old one
            Query q; q.kind = st.k == S_STATUS ? 0 : 1; q.task = ti;
            q.call = vc::tick();
            q.result = st.k == S_STATUS ? S.pool->status(t->token) : S.pool->cancel(t->token);
            q.ret = vc::tick();
            if (q.kind == 1 && q.result == 0) { ++t->cancel_ok; t->cancel_ok_ret = q.ret; }
            S.queries.push_back(q);
            break;
        }
        case S_SNAP: {
            size_t th, idle, doing, undo;
            if (S.ready && S.pool->snapshot(th, idle, doing, undo)) {
                if ((int)th > S.mx) vh::viol("bound/threads-exceed-max", vh::fmt("snapshot().thread_num=%zu > max_thread_num=%d", th, S.mx));
                if (idle > th) vh::viol("bound/idle-exceeds-threads", vh::fmt("snapshot(): idle %zu > threads %zu", idle, th));
                // taken under the pool's own lock: a waiting task with no worker at all can only be rescued by a later
                // submit; execute() creates a worker inside the same critical section whenever none can take the task
                if (undo > 0 && th == 0)
                    vh::viol("progress/waiting-task-with-no-worker", vh::fmt("snapshot(): %zu tasks waiting, thread_num=0 (idle=%zu doing=%zu): nobody will run them unless another task is submitted", undo, idle, doing));
                vh::counter("snapshots");
            }
            break;
        }
        case S_RELEASE: if (st.a < (int)S.gates.size()) S.gates[st.a]->store(1); break;
        case S_SPIN: {
            if (st.a >= 1000) vc::sleep_us(st.a - 1000);
            else { auto t0 = std::chrono::steady_clock::now(); while (std::chrono::steady_clock::now() - t0 < std::chrono::microseconds(st.a)) {} }
            break;
        }
        case S_WAIT_STARTED: {   // wait until task a has started (bounded); used to park the single worker
            int ti = st.a;
            if (ti < (int)S.tasks.size() && S.tasks[ti]->accepted && S.tasks[ti]->start_count.load() == 0 && ++S.quiesce_polls < 100000) {
                vc::sleep_us(100); advance = false;
            } else S.quiesce_polls = 0;
            break;
        }
        case S_WAIT_END: {   // busy-wait (bounded) until task a's body has returned, then a tiny extra spin: the next step lands
                             // right where the worker re-takes the lock, looks for more work and may decide to retire
            int ti = st.a;
            if (ti < (int)S.tasks.size() && S.tasks[ti]->accepted) {
                auto t0 = std::chrono::steady_clock::now();
                while (S.tasks[ti]->end_count.load(std::memory_order_relaxed) == 0 &&
                       std::chrono::steady_clock::now() - t0 < std::chrono::milliseconds(3)) {}
                // the worker needs ~1-5 us (uninstrumented) to ~20-100 us (TSan) from the end of the body to its retire
                // decision: cover both ranges
                long spin_ns = (st.b % 4 == 0) ? (long)st.b * 250 : (long)st.b * 2500;
                auto t1 = std::chrono::steady_clock::now();
                while (std::chrono::steady_clock::now() - t1 < std::chrono::nanoseconds(spin_ns)) {}
            }
            break;
        }
        case S_LOOP_GAP: {
            // stop the loop with the pool alive: workers keep finishing tasks and post their completion callbacks
            // while no thread runs the loop; the script continues when the loop is run again
            S.in_gap = true; S.gap_us = st.a;
            ++S.pc;
            S.loop->exitLoop();
            vh::counter("loop_stopped_gaps");
            return;
        }
        case S_MARK_PARK_BEGIN: S.parking = true; S.cur_park.clear(); break;
        case S_MARK_PARK_END: S.parking = false; S.park_batches.push_back(S.cur_park); break;
        case S_QUIESCE: {
            if (!S.ready) break;
            if (!all_settled(S)) {
                if (++S.quiesce_polls < 60000) { vc::sleep_us(200); advance = false; break; }
                // bounded progress failed: decide from the pool's own snapshot, not from the clock
                size_t th = 0, idle = 0, doing = 0, undo = 0;
                bool have = S.pool->snapshot(th, idle, doing, undo);
                int pending = 0; for (auto &t : S.tasks) if (t->accepted && !t->cancel_ok && t->round == S.round && t->start_count.load() == 0) ++pending;
                if (pending > 0 && have && doing == 0 && idle == th)
                    vh::viol("progress/tasks-stranded-all-workers-idle", vh::fmt("%d accepted tasks never started; snapshot: threads=%zu idle=%zu doing=0 waiting=%zu", pending, th, idle, undo));
                else if (pending > 0 && have && doing == 0 && undo == 0)
                    vh::viol("history/task-lost", vh::fmt("%d accepted tasks are neither waiting nor running and never ran", pending));
                else if (pending > 0 && !have && S.inflight.load() == 0)
                    vh::viol("progress/tasks-stranded-worker-idle", vh::fmt("%d accepted tasks never started and no body is running", pending));
                else if (pending > 0 && have && doing == 0 && undo > 0 && S.inflight.load() == 0) {
                    // tasks are waiting, the pool itself says nothing is being executed and no body is running, and
                    // that has not changed for the whole bounded wait (>= 12 s, nothing was submitted meanwhile); the
                    // worker count alone cannot tell live workers from ones that have left (e.g. a stale stop flag).
                    // Look once more a little later so that a worker caught between wake-up and pick-up is not blamed.
                    vc::sleep_us(200000);
                    size_t th2 = 0, idle2 = 0, doing2 = 0, undo2 = 0;
                    S.pool->snapshot(th2, idle2, doing2, undo2);
                    int pending2 = 0; for (auto &t : S.tasks) if (t->accepted && !t->cancel_ok && t->round == S.round && t->start_count.load() == 0) ++pending2;
                    if (pending2 == pending && doing2 == 0 && S.inflight.load() == 0)
                        vh::viol("progress/tasks-waiting-while-nothing-runs", vh::fmt("%d accepted tasks never started although nothing has been executing for the whole bounded wait; snapshot: threads=%zu idle=%zu doing=0 waiting=%zu",
                                                                                  pending, th2, idle2, undo2));
                    else vh::counter("quiesce_inconclusive");
                }
                else vh::counter("quiesce_inconclusive");
                S.quiesce_failed = true;
            }
            S.quiesce_polls = 0;
            vh::counter("quiesce_points");
            break;
        }
        case S_CLEANUP: {
            int r = S.round < 4 ? S.round : 3;
            S.cleanup_call[r] = vc::tick();
            S.pool->cleanup();
            S.cleanup_ret[r] = vc::tick();
            S.ready = false;
            break;
        }
        case S_REINIT: {
            ++S.round;
            bool ok = S.pool->init(S.mn, S.mx);
            if (!ok) vh::viol("api/reinitialize-failed", "initialize() after cleanup() returned false");
            S.ready = ok;
            break;
        }
    }
    if (advance) ++S.pc;
    schedule(Sp);
}

void gen(vh::Rng &r, Scenario &S, vh::Sig &sig) {
    S.work_thread = vh::st().args.mode == "workthread" || (vh::st().args.mode == "mix" && r.chance(1, 4));
    if (S.work_thread) {
        S.mn = 1; S.mx = 1; S.wt_cfg = (int)r.below(3);
        static const char *cn[] = {"workthread_default_loop_only", "workthread_no_default_loop_explicit_task_loop", "workthread_default_and_task_loop"};
        vh::counter(cn[S.wt_cfg]);
    }
    else { S.mx = 1 + (int)r.below(6); S.mn = (int)r.below(std::min(S.mx, 3) + 1); }
    int rounds = 1 + (r.chance(1, 4) ? 1 : 0);
    int ngates = 0;
    auto add = [&](StepKind k, int a = 0, int b = 0, int c = 0, int d = 0) { Step s; s.k = k; s.a = a; s.b = b; s.c = c; s.d = d; S.steps.push_back(s); sig.add(k); sig.add(a); sig.add(b); };
    int ntasks_total = 0;
    for (int rd = 0; rd < rounds; ++rd) {
        if (rd > 0) add(S_REINIT);
        std::vector<int> open_gates;
        int n = 1 + (int)r.below(r.chance(1, 5) ? 200 : 30);
        bool park_pattern = (S.mx == 1) && r.chance(1, 2);
        if (park_pattern) {
            int g = ngates++; open_gates.push_back(g);
            add(S_EXEC, 0, 3, g, r.chance(1, 2));
            int parked = ntasks_total++;
            add(S_WAIT_STARTED, parked);
            add(S_MARK_PARK_BEGIN);
            int m = 2 + (int)r.below(12);
            bool wide_prio = r.chance(1, 3);
            for (int i = 0; i < m; ++i) {
                int pr = (int)r.range(-2, 2);
                if (wide_prio && r.chance(1, 3)) {
                    // outside the documented [-2, 2]: the library clamps to the nearer end (thread_pool.cpp), and so does the model
                    static const int far[] = {-3, -4, -7, -1000, INT_MIN, 3, 4, 9, 1000, INT_MAX};
                    pr = r.pick(far);
                    vh::counter(pr < 0 ? "parked_tasks_with_priority_below_range" : "parked_tasks_with_priority_above_range");
                }
                add(S_EXEC, pr, (int)r.below(3), -1, r.chance(1, 2)); ++ntasks_total;
                if (r.chance(1, 6)) add(S_STATUS, ntasks_total - 1 - (int)r.below(std::min(ntasks_total, 3)));
            }
            // cancel one or two of the parked tasks (not only the newest) while they are all still waiting
            if (r.chance(1, 2)) {
                int nc = 1 + (int)r.below(2);
                for (int i = 0; i < nc; ++i) add(S_CANCEL, parked + 1 + (int)r.below(m));
                vh::counter("cancels_inside_parked_window", nc);
            }
            add(S_MARK_PARK_END);
            add(S_RELEASE, g); open_gates.clear();
        }
        // "retire race": with min < max a surplus worker retires as soon as it finds no work; keep submitting
        // short tasks at about the moment the previous one ends, so that execute() lands around that decision
        if (!S.work_thread && S.mn < S.mx && r.chance(1, 3)) {
            int m = 20 + (int)r.below(100);
            static const int gaps[] = {1, 1, 5, 5, 30, 100};
            for (int i = 0; i < m; ++i) {
                add(S_EXEC, (int)r.range(-2, 2), r.chance(3, 4) ? 0 : 1, -1, r.chance(1, 3)); ++ntasks_total;
                if (r.chance(2, 3)) add(S_WAIT_END, ntasks_total - 1, (int)r.below(60));
                else add(S_SPIN, r.pick(gaps));
                if (i > 0 && r.chance(1, 2)) { add(S_SNAP); }
                if (r.chance(1, 8)) add(S_STATUS, ntasks_total - 1);
            }
            vh::counter("retire_race_bursts");
        }
        for (int i = 0; i < n; ++i) {
            switch (r.below(12)) {
                case 0: case 1: case 2: case 3: case 4: {
                    int body = (int)r.below(10); body = body < 4 ? 0 : body < 7 ? 1 : body < 9 ? 2 : 3;
                    if (body != 3 && r.chance(1, 25)) { body = 4; vh::counter("task_bodies_leaving_by_exception"); }
                    int g = -1;
                    if (body == 3) { g = ngates++; open_gates.push_back(g); }
                    add(S_EXEC, (int)r.range(-3, 3), body, g, r.chance(1, 2)); ++ntasks_total;
                    break;
                }
                case 5: case 6: if (ntasks_total) add(S_STATUS, ntasks_total - 1 - (int)r.below(std::min(ntasks_total, 4))); break;
                case 7: if (ntasks_total) add(S_CANCEL, ntasks_total - 1 - (int)r.below(std::min(ntasks_total, 4))); break;
                case 8: if (r.chance(1, 4)) { static const int gp[] = {0, 50, 300, 1500}; add(S_LOOP_GAP, r.pick(gp)); } else add(S_SNAP); break;
                case 9: { static const int sp[] = {1, 5, 30, 100, 1300, 2000}; add(S_SPIN, r.pick(sp)); break; }
                case 10: if (!open_gates.empty()) { size_t k = r.below(open_gates.size()); add(S_RELEASE, open_gates[k]); open_gates.erase(open_gates.begin() + k); } break;
                case 11: if (ntasks_total) add(S_STATUS, (int)r.below(ntasks_total)); break;
            }
        }
        for (int g : open_gates) add(S_RELEASE, g);
        int fin = (int)r.below(4);
        if (fin != 0) add(S_QUIESCE);              // 3 of 4: wait for everything, so a lost task cannot hide behind cleanup
        if (fin == 2) { add(S_SPIN, 1000 + (int)r.below(3000)); add(S_SNAP); }  // let surplus workers retire first
        add(S_CLEANUP);
        int post = (int)r.below(4);
        for (int i = 0; i < post; ++i) {
            if (r.chance(1, 2) && ntasks_total) add(S_STATUS, (int)r.below(ntasks_total));
            else if (!S.work_thread) { add(S_EXEC, 0, 0, -1, 0); ++ntasks_total; }
        }
    }
    for (int i = 0; i < ngates; ++i) S.gates.emplace_back(new std::atomic<int>(0));
    sig.add(S.work_thread); sig.add(S.wt_cfg); sig.add(S.mn); sig.add(S.mx);
    S.desc = vh::fmt("%s min=%d max=%d steps=%zu tasks=%d rounds=%d", S.work_thread ? "WorkThread" : "ThreadPool", S.mn, S.mx, S.steps.size(), ntasks_total, rounds);
}

const char *stname[] = {"waiting", "executing", "notfound"};

void check_history(Scenario &S, bool &nontrivial) {
    uint64_t windows = 0;
    for (size_t i = 0; i < S.tasks.size(); ++i) {
        TaskRec &t = *S.tasks[i];
        uint32_t sc = t.start_count.load(), ec = t.end_count.load(), cc = t.cb_count.load();
        uint64_t st = t.start_tick.load(), et = t.end_tick.load();
        int rd = t.round < 4 ? t.round : 3;
        if (sc > 1) vh::viol("history/task-ran-twice", vh::fmt("task %zu started %u times", i, sc));
        if (!t.accepted) {
            if (sc) vh::viol("history/unaccepted-task-ran", vh::fmt("task %zu got a null token but ran", i));
            continue;
        }
        if (t.cancel_ok && sc) vh::viol("history/cancelled-task-ran", vh::fmt("task %zu: cancel() returned 0 (success) but the task body ran (start tick %llu, cancel returned at %llu)", i, (unsigned long long)st, (unsigned long long)t.cancel_ok_ret));
        if (t.cancel_ok > 1) vh::viol("history/cancel-succeeded-twice", vh::fmt("task %zu: cancel() returned 0 %d times", i, t.cancel_ok));
        if (sc && t.start_tid.load() == S.loop_tid) vh::viol("thread/body-on-loop-thread", vh::fmt("task %zu body ran on the loop thread", i));
        if (sc != ec) vh::viol("history/body-did-not-return", vh::fmt("task %zu start=%u end=%u", i, sc, ec));
        uint64_t cr = S.cleanup_ret[rd], ccall = S.cleanup_call[rd];
        if (sc && cr && st > cr) vh::viol("history/start-after-cleanup-returned", vh::fmt("task %zu started at %llu, cleanup() returned at %llu", i, (unsigned long long)st, (unsigned long long)cr));
        if (!sc && !t.cancel_ok && !(ccall && true)) vh::viol("history/task-never-ran", vh::fmt("task %zu accepted, not cancelled, never ran", i));
        // completion callback
        if (t.has_cb) {
            if (cc > 1) vh::viol("history/callback-twice", vh::fmt("task %zu completion callback ran %u times", i, cc));
            if (cc && !ec) vh::viol("history/callback-without-run", vh::fmt("task %zu completion callback ran but the body did not", i));
            if (ec && cc == 0) vh::viol("history/callback-lost", vh::fmt("task %zu body finished but its completion callback never ran (loop has exited)", i));
            if (cc && t.cb_tid.load() != S.loop_tid) vh::viol("thread/callback-off-loop-thread", vh::fmt("task %zu completion callback ran on tid %ld, loop tid %ld", i, t.cb_tid.load(), S.loop_tid));
            if (cc && ec && t.cb_tick.load() < et) vh::viol("history/callback-before-body-end", vh::fmt("task %zu callback tick %llu < body end tick %llu", i, (unsigned long long)t.cb_tick.load(), (unsigned long long)et));
        }
    }
    for (auto &q : S.queries) {
        TaskRec &t = *S.tasks[q.task];
        uint32_t sc = t.start_count.load();
        uint64_t st = t.start_tick.load(), et = t.end_tick.load();
        bool will_run_later = sc && st > q.ret;
        bool running_throughout = sc && st < q.call && (t.end_count.load() == 0 || et > q.ret);
        bool finished_before = t.end_count.load() && et < q.call;
        bool started_before = sc && st < q.call;
        if (will_run_later) ++windows;
        if (q.kind == 0) {
            if (q.result == 2 && will_run_later) vh::viol("answer/status-notfound-but-ran-later", vh::fmt("getTaskStatus(task %d) = notfound at [%llu,%llu] but the body started at %llu", q.task, (unsigned long long)q.call, (unsigned long long)q.ret, (unsigned long long)st));
            if (q.result == 2 && running_throughout) vh::viol("answer/status-notfound-while-running", vh::fmt("getTaskStatus(task %d) = notfound at [%llu,%llu] while the body ran [%llu,%llu]", q.task, (unsigned long long)q.call, (unsigned long long)q.ret, (unsigned long long)st, (unsigned long long)et));
            if (q.result == 0 && started_before) vh::viol("answer/status-waiting-after-start", vh::fmt("getTaskStatus(task %d) = waiting at %llu but the body had started at %llu", q.task, (unsigned long long)q.call, (unsigned long long)st));
            if (q.result == 0 && finished_before) vh::viol("answer/status-waiting-after-end", vh::fmt("getTaskStatus(task %d) = waiting after the body finished", q.task));
            vh::counter(std::string("status_") + stname[q.result < 3 ? q.result : 2]);
        } else {
            if (q.result == 1 && will_run_later) vh::viol("answer/cancel-notfound-but-ran-later", vh::fmt("cancel(task %d) = 1 (not found) at [%llu,%llu] but the body started at %llu", q.task, (unsigned long long)q.call, (unsigned long long)q.ret, (unsigned long long)st));
            if (q.result == 1 && running_throughout) vh::viol("answer/cancel-notfound-while-running", vh::fmt("cancel(task %d) = 1 (not found) while the body was running", q.task));
            if (q.result == 2 && will_run_later && false) {}
            vh::counter(vh::fmt("cancel_result_%d", q.result));
        }
    }
    vh::counter("queries_before_start_window", windows);
    if (!S.work_thread && S.max_inflight.load() > S.mx)
        vh::viol("bound/bodies-exceed-max-threads", vh::fmt("%d task bodies ran at once, max_thread_num=%d", S.max_inflight.load(), S.mx));
    if (S.work_thread && S.max_inflight.load() > 1) vh::viol("bound/bodies-exceed-max-threads", "WorkThread ran two bodies at once");
    vh::counter_max("max_inflight", S.max_inflight.load());
    // priority / FIFO order among tasks that were all waiting while the only worker was parked
    for (auto &batch : S.park_batches) {
        std::vector<int> b;
        for (int ti : batch) if (!S.tasks[ti]->cancel_ok && S.tasks[ti]->start_count.load()) b.push_back(ti);
        if (b.size() < 2) continue;
        std::vector<int> expect = b;
        std::stable_sort(expect.begin(), expect.end(), [&](int x, int y) {
            if (S.work_thread) return false;   // WorkThread has no priorities: plain FIFO
            int px = std::max(-2, std::min(2, S.tasks[x]->prio)), py = std::max(-2, std::min(2, S.tasks[y]->prio));
            return px < py; });
        std::vector<int> got = b;
        std::sort(got.begin(), got.end(), [&](int x, int y) { return S.tasks[x]->start_tick.load() < S.tasks[y]->start_tick.load(); });
        if (got != expect) {
            std::string e, g;
            for (int x : expect) e += vh::fmt("%d(p%d) ", x, S.tasks[x]->prio);
            for (int x : got) g += vh::fmt("%d(p%d) ", x, S.tasks[x]->prio);
            vh::viol("order/priority-fifo", "single worker was parked; expected start order [" + e + "] got [" + g + "]");
        }
        vh::counter("order_batches_checked");
        nontrivial = true;
    }
}

void one_case(uint64_t idx, vh::Rng &r) {
    static const int dmax[] = {0, 30, 120, 300};
    vc::set_delays(vh::mix(vh::st().args.seed, idx), (int)r.below(10), r.pick(dmax));
    vh::Sig sig;
    Scenario S;
    gen(r, S, sig);
    vh::st().case_desc = S.desc;
    event::Loop *loop = event::Loop::New(r.chance(1, 2) ? "epoll" : "select");
    if (!loop) { vh::viol("api/loop-new", "Loop::New failed"); return; }
    S.loop = loop;
    S.loop_tid = vc::gettid_();
    std::unique_ptr<IPool> pool;
    if (S.work_thread) pool.reset(new WPool(loop, S.wt_cfg)); else pool.reset(new TPool(loop));
    S.pool = pool.get();
    S.ready = pool->init(S.mn, S.mx);
    if (!S.ready) { vh::viol("api/initialize-failed", vh::fmt("initialize(%d,%d) returned false", S.mn, S.mx)); }
    schedule(&S);
    loop->runLoop();
    while (S.in_gap) {
        S.in_gap = false;
        vc::sleep_us(S.gap_us);
        schedule(&S);
        loop->runLoop();
    }
    bool nontrivial = false;
    check_history(S, nontrivial);
    pool.reset();
    delete loop;
    vh::counter("tasks", S.tasks.size());
    vh::counter("queries", S.queries.size());
    vh::counter("verif_point_delays", vc::dcfg().delays.exchange(0));
    vh::counter(S.work_thread ? "scenarios_workthread" : "scenarios_threadpool");
    if (S.queries.size() >= 2 && S.tasks.size() >= 3) nontrivial = true;
    vh::note_case(sig.h, nontrivial);
    if (nontrivial && vh::want_sample()) {
        std::string s = "{\"config\":" + vh::jstr(S.desc) + ",\"tasks\":[";
        for (size_t i = 0; i < S.tasks.size() && i < 8; ++i) {
            TaskRec &t = *S.tasks[i];
            s += vh::fmt("%s{\"prio\":%d,\"body\":%d,\"exec\":[%llu,%llu],\"start\":%llu,\"end\":%llu,\"cb\":%llu,\"cancelled\":%d}", i ? "," : "", t.prio, t.body,
                         (unsigned long long)t.exec_call, (unsigned long long)t.exec_ret, (unsigned long long)t.start_tick.load(), (unsigned long long)t.end_tick.load(), (unsigned long long)t.cb_tick.load(), t.cancel_ok);
        }
        s += "]}";
        vh::sample(s);
    }
}

}  // namespace

int main(int argc, char **argv) { return vh::run(argc, argv, one_case); }
