// C11: lifecycle hooks of a tbox::main::Module tree are nested, ordered and balanced.
// Probe modules override the four hooks and append to a trace; after every explicit call on the
// root the trace is judged by c11::Monitor (c11_model.hpp).
// modes: random     seeded trees (<= 25 modules, depth <= 4, fan-out <= 4), fault plans, <= 8 root calls
//        exhaustive every tree with <= --nodes modules x required flags x 2 namings x fault assignment
//                   from a --faults sized alphabet per hook x every call sequence of length <= --len
//        xcount     print the size of that space
#include "common/vh.hpp"
#include "c11_model.hpp"

#include <tbox/base/json.hpp>
#include <tbox/main/module.h>

#include <memory>

using tbox::Json;
using tbox::main::Context;
using tbox::main::Module;

namespace {

//! Module only stores the reference; none of the services is touched by the code under test
class NullContext : public Context {
  public:
    tbox::event::Loop *loop() const override { return nullptr; }
    tbox::eventx::ThreadPool *thread_pool() const override { return nullptr; }
    tbox::eventx::TimerPool *timer_pool() const override { return nullptr; }
    tbox::eventx::Async *async() const override { return nullptr; }
    tbox::terminal::TerminalNodes *terminal() const override { return nullptr; }
    tbox::coroutine::Scheduler *coroutine() const override { return nullptr; }
    std::chrono::milliseconds running_time() const override { return std::chrono::milliseconds(0); }
    std::chrono::system_clock::time_point start_time_point() const override { return std::chrono::system_clock::time_point(); }
};

//! vh::counter() costs a std::map<std::string> lookup; the exhaustive legs run millions of tiny cases,
//! so counters are accumulated in a flat table and flushed once at the end of the shard
#define C11_COUNTERS(X) \
    X(calls_initialize) X(calls_start) X(calls_stop) X(calls_cleanup) \
    X(mech_repeated_or_noop_call) X(mech_start_before_initialize) X(mech_cleanup_implies_stop) \
    X(mech_retry_after_failed_initialize) X(mech_retry_after_failed_start) \
    X(hooks_init_ok) X(hooks_init_fail) X(hooks_start_ok) X(hooks_start_fail) X(hooks_stop) X(hooks_cleanup) \
    X(mech_reverse_stop_of_3_or_more) X(state_reads) X(mech_destroy_without_cleanup) X(mech_destroy_while_running) \
    X(histories_ending_in_destroy_while_running) X(histories_ending_in_destroy_while_inited) X(histories_ending_in_destroy_after_stop) \
    X(destroy_descendants_stopped_by_root_destructor) X(destroy_descendants_cleaned_by_root_destructor) X(destroy_half_built_tree) \
    X(hooks_during_destruction) X(mech_children_deleted_by_parent) \
    X(mech_init_required_child_fails_early_return) X(mech_start_required_child_fails_early_return) \
    X(mech_init_required_child_fails_after_sibling_succeeded) X(mech_start_required_child_fails_after_sibling_succeeded) \
    X(mech_init_optional_child_fails_parent_continues) X(mech_start_optional_child_fails_parent_continues) \
    X(mech_init_optional_subtree_half_built) X(mech_start_optional_subtree_half_built) \
    X(mech_config_section_missing) X(calls_judged_with_reference) X(calls_judged_invariants_only) X(hook_events) \
    X(max_modules) X(max_stops_in_one_call) X(max_depth) X(max_fanout)
enum CounterId {
#define X(n) n,
    C11_COUNTERS(X)
#undef X
    kCounterCount
};
const char *const kCounterName[] = {
#define X(n) #n,
    C11_COUNTERS(X)
#undef X
};
uint64_t fc[kCounterCount];
inline void cnt(CounterId id, uint64_t inc = 1) { fc[id] += inc; }
inline void cmax(CounterId id, uint64_t v) { if (v > fc[id]) fc[id] = v; }
void flush_counters() {
    for (int i = 0; i < kCounterCount; ++i) {
        if (strncmp(kCounterName[i], "max_", 4) == 0) vh::counter_max(kCounterName[i], fc[i]);
        else vh::counter(kCounterName[i], fc[i]);
    }
}

struct World {
    const c11::Tree *tree_p = nullptr;
    std::vector<c11::Ev> trace;
    std::vector<int> destroyed;
    std::vector<int> n_init, n_start;
    std::vector<std::string> cfg_complaints;
};
World *g = nullptr;

class Probe : public Module {
  public:
    Probe(int id, const std::string &name, Context &ctx) : Module(name, ctx), id_(id) {}
    ~Probe() override { ++g->destroyed[id_]; }

  protected:
    static bool planned_failure(uint8_t plan, int k) { return (plan >> (k > 7 ? 7 : k)) & 1; }

    void onFillDefaultConfig(Json &js_this) override {
        if (g->tree_p->n[id_].fill_cfg) js_this[marker()] = id_;
    }
    bool onInit(const Json &js_this) override {
        const c11::Node &x = g->tree_p->n[id_];
        if (x.fill_cfg && !(js_this.is_object() && js_this.contains(marker()) && js_this[marker()] == id_))
            g->cfg_complaints.push_back(vh::fmt("module %d: onInit did not receive the section its onFillDefaultConfig filled", id_));
        bool ok = !planned_failure(x.init_plan, g->n_init[id_]++);
        g->trace.push_back(c11::Ev{c11::K_INIT, id_, ok});
        return ok;
    }
    bool onStart() override {
        bool ok = !planned_failure(g->tree_p->n[id_].start_plan, g->n_start[id_]++);
        g->trace.push_back(c11::Ev{c11::K_START, id_, ok});
        return ok;
    }
    void onStop() override { g->trace.push_back(c11::Ev{c11::K_STOP, id_, true}); }
    void onCleanup() override { g->trace.push_back(c11::Ev{c11::K_CLEANUP, id_, true}); }

  private:
    std::string marker() const { return vh::fmt("p%d", id_); }
    int id_;
};

int state_num(Module::State s) {
    return s == Module::State::kNone ? 0 : s == Module::State::kInited ? 1 : 2;
}

//! remove the config section of module m (the documented way for a named module to fail before its hook)
void erase_section(Json &cfg, const c11::Tree &t, int m) {
    std::vector<int> path;
    for (int a = t.n[m].parent; a >= 0; a = t.n[a].parent) path.push_back(a);
    Json *js = &cfg;
    for (auto it = path.rbegin(); it != path.rend(); ++it) {
        const std::string &nm = t.n[*it].name;
        if (nm.empty()) continue;
        if (!js->is_object() || !js->contains(nm)) return;
        js = &(*js)[nm];
    }
    if (js->is_object()) js->erase(t.n[m].name);
}

//! builds the tree, performs the calls, judges. calls: digits 0..3 (c11::Call); final_cleanup: explicit cleanup() before destruction
void run_case(const c11::Tree &tree, const std::vector<uint8_t> &calls, bool final_cleanup, bool want_sample) {
    World w;
    w.tree_p = &tree;
    w.trace.reserve(64);
    const size_t N = tree.n.size();
    w.destroyed.assign(N, 0);
    w.n_init.assign(N, 0);
    w.n_start.assign(N, 0);
    g = &w;

    // the readable script (tree | calls with their return values) is only built when somebody needs it
    std::vector<std::pair<uint8_t, int>> done;
    bool destroyed_root = false;
    auto make_script = [&]() {
        std::string o = tree.describe() + " |";
        for (auto &d : done) o += d.second < 0 ? vh::fmt(" %s", c11::kCallName[d.first]) : vh::fmt(" %s=%d", c11::kCallName[d.first], d.second);
        if (destroyed_root) o += " ~";
        return o;
    };
    vh::st().case_desc.clear();

    NullContext ctx;
    std::vector<Probe *> probe(N, nullptr);
    for (size_t i = 0; i < N; ++i) {
        const c11::Node &x = tree.n[i];
        probe[i] = new Probe((int)i, (i != 0 && x.use_add_as) ? vh::fmt("tmp%zu", i) : x.name, ctx);
    }
    for (size_t i = 1; i < N; ++i) {
        const c11::Node &x = tree.n[i];
        bool ok = x.use_add_as ? probe[x.parent]->addAs(probe[i], x.name, x.required) : probe[x.parent]->add(probe[i], x.required);
        if (!ok) {   // the generator keeps sibling names distinct, so this is a harness error, not a finding
            fprintf(stderr, "c11: add() refused module %zu (%s)\n", i, make_script().c_str());
            abort();
        }
        if (probe[i]->name() != x.name) vh::st().case_desc = make_script(), vh::viol("api/addas-name", vh::fmt("module %zu is called '%s' after add, wanted '%s'", i, probe[i]->name().c_str(), x.name.c_str()));
    }
    Module *root = probe[0];

    Json cfg;
    root->fillDefaultConfig(cfg);
    bool any_nocfg = false;
    for (size_t i = N; i-- > 0;)
        if (tree.n[i].cfg_missing) { erase_section(cfg, tree, (int)i); any_nocfg = true; }

    c11::Monitor mon(tree);
    mon.before_report = [&]() { vh::st().case_desc = make_script(); };
    std::string trace_txt;
    int prev_ret[4] = {-1, -1, -1, -1};
    size_t max_stops_in_call = 0;
    bool last_change_was_stop = false;   //! the last call that changed the root's state was stop()

    auto do_call = [&](uint8_t c) {
        size_t from = w.trace.size();
        const uint8_t root_model = mon.m_state[0];
        const bool synced = mon.in_sync;
        int ret = -1;
        switch (c) {
            case c11::CALL_INIT: ret = root->initialize(cfg) ? 1 : 0; break;
            case c11::CALL_START: ret = root->start() ? 1 : 0; break;
            case c11::CALL_STOP: root->stop(); break;
            default: root->cleanup(); break;
        }
        std::vector<c11::Ev> evs(w.trace.begin() + from, w.trace.end());
        done.emplace_back(c, ret);
        if (want_sample) trace_txt += vh::fmt("%s%s(): %s", trace_txt.empty() ? "" : " / ", c11::kCallName[c], c11::ev_str(evs, 40).c_str());

        // mechanism counters (classification only; the verdicts are the monitor's)
        cnt((CounterId)(calls_initialize + c));
        if (synced) {
            if ((c == c11::CALL_INIT && root_model != 0) || (c == c11::CALL_START && root_model == 2) ||
                (c == c11::CALL_STOP && root_model != 2) || (c == c11::CALL_CLEANUP && root_model == 0))
                cnt(mech_repeated_or_noop_call);
            if (c == c11::CALL_START && root_model == 0) cnt(mech_start_before_initialize);
            if (c == c11::CALL_CLEANUP && root_model == 2) cnt(mech_cleanup_implies_stop);
            if (c == c11::CALL_INIT && prev_ret[c] == 0 && root_model == 0) cnt(mech_retry_after_failed_initialize);
            if (c == c11::CALL_START && prev_ret[c] == 0 && root_model == 1) cnt(mech_retry_after_failed_start);
        }
        size_t stops = 0;
        for (auto &e : evs) {
            switch (e.k) {
                case c11::K_INIT: cnt(e.ok ? hooks_init_ok : hooks_init_fail); break;
                case c11::K_START: cnt(e.ok ? hooks_start_ok : hooks_start_fail); break;
                case c11::K_STOP: cnt(hooks_stop); ++stops; break;
                case c11::K_CLEANUP: cnt(hooks_cleanup); break;
            }
        }
        if ((c == c11::CALL_STOP || c == c11::CALL_CLEANUP) && stops >= 3) cnt(mech_reverse_stop_of_3_or_more);
        if (stops > max_stops_in_call) max_stops_in_call = stops;
        if (ret >= 0) prev_ret[c] = ret;
        if (!evs.empty()) last_change_was_stop = (c == c11::CALL_STOP);

        mon.on_call((c11::Call)c, evs, ret);
        for (size_t i = 0; i < N; ++i) mon.check_state((int)i, state_num(probe[i]->state()));
        cnt(state_reads, N);
        if (c == c11::CALL_START && ret == 1 && !mon.dead) {
            // "failure of an optional module never stops its siblings or ancestors from ... running"
            if (state_num(root->state()) != 2) mon.fail("state/start-true-root-not-running", "start() returned true but the root does not report kRunning");
        }
    };

    for (uint8_t c : calls) do_call(c);
    if (final_cleanup) do_call(c11::CALL_CLEANUP);
    else {
        cnt(mech_destroy_without_cleanup);
        const int rs = state_num(root->state());
        if (rs == 2) { cnt(mech_destroy_while_running); cnt(histories_ending_in_destroy_while_running); }
        if (rs == 1) { cnt(histories_ending_in_destroy_while_inited); if (last_change_was_stop) cnt(histories_ending_in_destroy_after_stop); }
        if (!mon.in_sync) cnt(destroy_half_built_tree);
    }

    // destruction. What the code guarantees for a root deleted without cleanup(): ~Module() of the root calls
    // cleanup() while every descendant is still a complete object, so their onStop/onCleanup overrides run
    // (reverse order) before any of them is deleted; only the root's OWN onStop/onCleanup cannot run, its
    // derived part is gone by then. on_destroy() holds the hooks to the ordering rules, on_destroyed_without_cleanup()
    // to the balance of every descendant.
    size_t from = w.trace.size();
    delete root;
    std::vector<c11::Ev> devs(w.trace.begin() + from, w.trace.end());
    destroyed_root = true;
    if (!devs.empty()) cnt(hooks_during_destruction, devs.size());
    if (want_sample && !devs.empty()) trace_txt += " / ~root: " + c11::ev_str(devs, 40);
    mon.on_destroy(devs);
    if (!final_cleanup) {
        size_t ds = 0, dc = 0;
        for (auto &e : devs) { if (e.k == c11::K_STOP) ++ds; if (e.k == c11::K_CLEANUP) ++dc; }
        if (ds) cnt(destroy_descendants_stopped_by_root_destructor);
        if (dc) cnt(destroy_descendants_cleaned_by_root_destructor);
        mon.on_destroyed_without_cleanup();
    }
    size_t deleted_children = 0;
    for (size_t i = 0; i < N; ++i) {
        if (w.destroyed[i] != 1)
            mon.fail("destroy/probe-not-destroyed-exactly-once", vh::fmt("module %zu was destroyed %d times when the root was deleted", i, w.destroyed[i]));
        else if (i) ++deleted_children;
    }
    cnt(mech_children_deleted_by_parent, deleted_children);
    if (final_cleanup) mon.on_end();
    for (auto &s : w.cfg_complaints) mon.fail("config/own-section-not-passed", s);

    // evidence
    for (int k = 0; k < 2; ++k) {
        if (mon.saw_req_early[k]) cnt((CounterId)(mech_init_required_child_fails_early_return + k));
        if (mon.saw_req_after_sibling[k]) cnt((CounterId)(mech_init_required_child_fails_after_sibling_succeeded + k));
        if (mon.saw_opt_continue[k]) cnt((CounterId)(mech_init_optional_child_fails_parent_continues + k));
        if (mon.saw_half_built_optional[k]) cnt((CounterId)(mech_init_optional_subtree_half_built + k));
    }
    if (any_nocfg) cnt(mech_config_section_missing);
    cnt(calls_judged_with_reference, mon.predicted_calls);
    cnt(calls_judged_invariants_only, mon.unsynced_calls);
    cnt(hook_events, w.trace.size());
    cmax(max_modules, N);
    cmax(max_stops_in_one_call, max_stops_in_call);
    int maxd = 0; size_t maxf = 0;
    for (auto &x : tree.n) { if (x.depth > maxd) maxd = x.depth; if (x.kids.size() > maxf) maxf = x.kids.size(); }
    cmax(max_depth, maxd);
    cmax(max_fanout, maxf);

    vh::Sig sig;
    for (auto &x : tree.n)
        sig.add((uint64_t)(x.parent + 1) | (uint64_t)x.required << 8 | (uint64_t)x.name.empty() << 9 | (uint64_t)x.cfg_missing << 10 |
                (uint64_t)x.fill_cfg << 11 | (uint64_t)x.use_add_as << 12 | (uint64_t)x.init_plan << 16 | (uint64_t)x.start_plan << 24);
    for (auto &d : done) sig.add((uint64_t)d.first * 4 + (uint64_t)(d.second + 1));
    sig.add(final_cleanup);
    bool nontrivial = N >= 2 && w.trace.size() >= 3 && (mon.saw_hook_failure || (!final_cleanup && !devs.empty()));
    vh::note_case(sig.h, nontrivial);
    if (want_sample && nontrivial && N >= 3 && N <= 9 && vh::want_sample())
        vh::sample("{\"tree_calls_returns\":" + vh::jstr(make_script()) + ",\"hooks\":" + vh::jstr(trace_txt.substr(0, 1500)) + "}");
    g = nullptr;
}

// ---- random ------------------------------------------------------------------------------------

uint8_t pick_plan(vh::Rng &r) {
    switch (r.below(20)) {
        case 0: case 1: case 2: case 3: case 4: case 5: case 6: case 7: case 8: return 0xff;   // always fails
        case 9: case 10: case 11: case 12: case 13: return 0x01;                                 // fails once, then succeeds
        case 14: case 15: return 0x02;                                                           // second invocation fails
        case 16: case 17: return 0xfe;                                                           // succeeds once, then fails
        default: { uint8_t p = r.byte(); return p ? p : 0x04; }
    }
}

c11::Tree gen_tree(vh::Rng &r) {
    static const int kMaxDepth = 4, kMaxFan = 4;
    int want;
    switch (r.below(10)) {
        case 0: want = 1 + (int)r.below(2); break;
        case 1: case 2: case 3: case 4: want = 3 + (int)r.below(5); break;
        case 5: case 6: case 7: want = 8 + (int)r.below(8); break;
        default: want = 16 + (int)r.below(10); break;
    }
    // random attachment, then renumber in pre-order so that ids are the registration/pre-order
    std::vector<int> par(1, -1), dep(1, 0);
    std::vector<std::vector<int>> kids(1);
    const int style = (int)r.below(3);   // 0 uniform, 1 prefer deep, 2 prefer wide
    for (int i = 1; i < want; ++i) {
        std::vector<int> cand;
        for (size_t p = 0; p < par.size(); ++p)
            if (dep[p] < kMaxDepth && (int)kids[p].size() < kMaxFan) cand.push_back((int)p);
        if (cand.empty()) break;
        int p;
        if (style == 1) p = cand[cand.size() - 1 - r.below(std::min<size_t>(cand.size(), 3))];
        else if (style == 2) p = cand[r.below(std::min<size_t>(cand.size(), 4))];
        else p = cand[r.below(cand.size())];
        par.push_back(p); dep.push_back(dep[p] + 1); kids.emplace_back();
        kids[p].push_back(i);
    }
    c11::Tree t;
    std::vector<int> newid(par.size(), -1);
    std::function<void(int, int)> dfs = [&](int old, int np) {
        int id = (int)t.n.size();
        newid[old] = id;
        t.n.emplace_back();
        t.n[id].parent = np;
        t.n[id].depth = dep[old];
        if (np >= 0) t.n[np].kids.push_back(id);
        for (int k : kids[old]) dfs(k, id);
    };
    dfs(0, -1);

    const size_t N = t.n.size();
    const int req_pct = (int)r.pick(std::vector<int>{30, 60, 60, 85, 100});
    for (size_t i = 0; i < N; ++i) {
        c11::Node &x = t.n[i];
        x.name = vh::fmt("m%zu", i);
        x.required = (int)r.below(100) < req_pct;
        x.fill_cfg = r.chance(1, 2);
        x.use_add_as = i != 0 && r.chance(1, 5);
    }
    if (r.chance(1, 2)) t.n[0].name.clear();
    for (size_t i = 0; i < N; ++i) {            // at most one unnamed child per parent (add() refuses duplicate names)
        if (t.n[i].kids.empty() || !r.chance(1, 3)) continue;
        t.n[r.pick(t.n[i].kids)].name.clear();
    }
    // faults: none in ~15% of the cases, else about k per tree
    if (!r.chance(3, 20)) {
        const unsigned k = 1 + (unsigned)r.below(3);
        const unsigned den = (unsigned)(2 * N);
        for (size_t i = 0; i < N; ++i) {
            c11::Node &x = t.n[i];
            if (r.below(den) < k) x.init_plan = pick_plan(r);
            if (r.below(den) < k) x.start_plan = pick_plan(r);
            if (!x.name.empty() && r.below(den * 3) < k) x.cfg_missing = true;
        }
    }
    return t;
}

std::vector<uint8_t> gen_calls(vh::Rng &r) {
    std::vector<uint8_t> c;
    if (r.chance(3, 5)) {
        static const std::vector<std::vector<uint8_t>> base = {
            {0, 1, 2, 3}, {0, 1, 3}, {0, 1}, {0, 0, 1, 1, 2, 3}, {0, 1, 2, 1, 2, 3}, {0, 1, 1, 2, 2, 3, 3}, {0, 3, 0, 1, 2}, {0, 1, 3, 0, 1, 3}};
        c = r.pick(base);
        int muts = (int)r.below(4);
        for (int m = 0; m < muts; ++m) {
            switch (r.below(4)) {
                case 0: if (c.size() < 8) c.insert(c.begin() + r.below(c.size() + 1), (uint8_t)r.below(4)); break;
                case 1: if (!c.empty()) c.erase(c.begin() + r.below(c.size())); break;
                case 2: if (!c.empty() && c.size() < 8) { size_t i = r.below(c.size()); c.insert(c.begin() + i, c[i]); } break;
                default: if (c.size() >= 2) { size_t i = r.below(c.size() - 1); std::swap(c[i], c[i + 1]); } break;
            }
        }
    } else {
        size_t len = r.below(9);
        static const uint8_t w[] = {0, 0, 0, 1, 1, 1, 2, 2, 3, 3};
        for (size_t i = 0; i < len; ++i) c.push_back(r.pick(w));
    }
    if (c.size() > 8) c.resize(8);
    return c;
}

void random_case(uint64_t, vh::Rng &r) {
    c11::Tree t = gen_tree(r);
    std::vector<uint8_t> calls = gen_calls(r);
    bool final_cleanup = !r.chance(1, 4);
    if (!final_cleanup && r.chance(3, 4))       // most of these end while the tree is still initialised or running
        while (!calls.empty() && calls.back() == c11::CALL_CLEANUP) calls.pop_back();
    run_case(t, calls, final_cleanup, vh::want_sample());
}

// ---- exhaustive --------------------------------------------------------------------------------

const std::vector<std::vector<std::vector<int>>> &shapes() {
    // parent arrays (for nodes 1..n-1) of every rooted ordered tree with n nodes, ids in pre-order
    static const std::vector<std::vector<std::vector<int>>> s = {
        {},
        {{}},
        {{0}},
        {{0, 0}, {0, 1}},
        {{0, 0, 0}, {0, 0, 2}, {0, 1, 0}, {0, 1, 1}, {0, 1, 2}},
    };
    return s;
}

uint64_t ipow(uint64_t b, unsigned e) { uint64_t r = 1; while (e--) r *= b; return r; }
uint64_t nseq(unsigned len) { uint64_t q = 0; for (unsigned l = 0; l <= len; ++l) q += ipow(4, l); return q; }

uint64_t block_size(unsigned n, unsigned faults, unsigned len) {
    return (uint64_t)shapes()[n].size() * ipow(2, n - 1) * 2 * ipow(faults, 2 * n) * nseq(len);
}
uint64_t space_size(unsigned nodes, unsigned faults, unsigned len) {
    uint64_t s = 0;
    for (unsigned n = 1; n <= nodes; ++n) s += block_size(n, faults, len);
    return s;
}

void exhaustive_case(uint64_t idx, unsigned nodes, unsigned faults, unsigned len, bool final_cleanup) {
    static const uint8_t alphabet[] = {0x00, 0xff, 0x01, 0xfe};
    unsigned n = 1;
    uint64_t x = idx;
    while (n <= nodes && x >= block_size(n, faults, len)) { x -= block_size(n, faults, len); ++n; }
    if (n > nodes) { x = 0; n = 1; }   // beyond the space: repeat the first case (counts as trivial duplicate)
    // call sequence
    uint64_t q = x % nseq(len); x /= nseq(len);
    std::vector<uint8_t> calls;
    {
        unsigned l = 0;
        while (q >= ipow(4, l)) { q -= ipow(4, l); ++l; }
        for (unsigned i = 0; i < l; ++i) { calls.push_back((uint8_t)(q % 4)); q /= 4; }
    }
    c11::Tree t;
    t.n.resize(n);
    for (unsigned i = 0; i < n; ++i) {
        t.n[i].init_plan = alphabet[x % faults]; x /= faults;
        t.n[i].start_plan = alphabet[x % faults]; x /= faults;
    }
    const unsigned naming = (unsigned)(x % 2); x /= 2;
    for (unsigned i = 1; i < n; ++i) { t.n[i].required = (x % 2) == 0; x /= 2; }
    const auto &shape = shapes()[n][x % shapes()[n].size()];
    for (unsigned i = 1; i < n; ++i) {
        t.n[i].parent = shape[i - 1];
        t.n[shape[i - 1]].kids.push_back((int)i);
        t.n[i].depth = t.n[shape[i - 1]].depth + 1;
    }
    for (unsigned i = 0; i < n; ++i) {
        t.n[i].name = vh::fmt("m%u", i);
        t.n[i].fill_cfg = (i % 2) == 0;
    }
    if (naming == 1) {   // root unnamed and the first child of every parent unnamed
        t.n[0].name.clear();
        for (unsigned i = 0; i < n; ++i) if (!t.n[i].kids.empty()) t.n[t.n[i].kids[0]].name.clear();
    }
    run_case(t, calls, final_cleanup, (idx % 977) == 0 && vh::want_sample());
}

}  // namespace

int main(int argc, char **argv) {
    vh::parse_args(argc, argv);
    const std::string mode = vh::st().args.mode;
    const unsigned nodes = (unsigned)vh::st().args.num("nodes", 4);
    const unsigned faults = (unsigned)vh::st().args.num("faults", 2);
    const unsigned len = (unsigned)vh::st().args.num("len", 4);
    const bool final_cleanup = vh::st().args.num("final", 1) != 0;   //! --final 0: delete the root without the closing cleanup()
    if (nodes < 1 || nodes > 4 || faults < 1 || faults > 4 || len > 8) { fprintf(stderr, "c11: bad --nodes/--faults/--len\n"); return 2; }
    if (mode == "xcount") {
        printf("%llu\n", (unsigned long long)space_size(nodes, faults, len));
        return 0;
    }
    vh::Args &a = vh::st().args;
    vh::prog_store(0, a.first); vh::prog_store(1, 0);
    vh::start_watchdog();     // same in-process watchdog as vh::run()
    for (uint64_t i = a.first; i < a.first + a.count; ++i) {
        vh::begin_case(i);
        vh::Rng rng(vh::mix(a.seed, i));
        if (mode == "exhaustive") exhaustive_case(i, nodes, faults, len, final_cleanup);
        else random_case(i, rng);
        vh::end_case();
    }
    flush_counters();
    vh::finish();
    return 0;
}
