// C04: signal events reach every subscriber; old disposition is restored.
//
// Real loops (1-3, each on its own thread, epoll and select back-ends), real signals, real sigaction().
// A seeded history of create / enable / disable / destroy operations on persistent and one-shot signal
// events (single signal, std::set and initializer_list initialisation) is executed on the owning loop
// (runInLoop + acknowledgement), interleaved with deliveries that are raised ONE AT A TIME and
// synchronously (raise()/pthread_sigqueue() to the calling thread, from the harness thread or from a
// task running on a loop thread) while no subscription change is in progress. When the raising call
// returns the process-level handler has run, so two acknowledged barrier tasks per loop give a logical
// point by which every callback of that delivery must have happened (the second barrier necessarily runs
// in a later loop pass than the one in which the signal pipe was readable).
//
// Reference model (independent of the implementation): per event {loop, signal set, mode, enabled}.
//   delivery of S  => +1 callback on every enabled event whose set contains S, on its loop's thread, with
//                     signo == S; one-shot events become disabled; nobody else is called;
//                     the disposition the harness installed before the first subscription (sentinel
//                     sa_handler / SA_SIGINFO handler) is invoked exactly once, with the same siginfo.
//   #enabled(S)==0 => sigaction(S, 0, &cur) equals the snapshot taken before the first subscription
//                     (handler, flags modulo SA_RESTORER, mask) - checked after EVERY step.
//
// modes: random (seeded histories), enum (every sequence of fixed depth over a 7-operation alphabet).
#include "common/vh.hpp"
#include <tbox/event/loop.h>
#include <tbox/event/signal_event.h>

#include <signal.h>
#include <pthread.h>
#include <sys/syscall.h>
#include <sys/wait.h>
#include <sched.h>
#include <chrono>
#include <atomic>
#include <condition_variable>
#include <memory>
#include <mutex>
#include <thread>
#include <vector>
#include <set>

using namespace tbox;
using event::Loop;
using event::SignalEvent;
using event::Event;

namespace {

// ------------------------------------------------------------------------------------------------
// signals used
// ------------------------------------------------------------------------------------------------
#ifndef SA_RESTORER
#define SA_RESTORER 0x04000000      // glibc hides it; the kernel reports it in the flags read back by sigaction()
#endif
const int NSIG_USED = 6;
int g_signo[NSIG_USED];                 // filled in main(): SIGUSR1 SIGUSR2 SIGHUP SIGRTMIN+3..5
const char *g_signame[NSIG_USED] = {"USR1", "USR2", "HUP", "RT3", "RT4", "RT5"};

int sig_index(int signo) {
    for (int i = 0; i < NSIG_USED; ++i) if (g_signo[i] == signo) return i;
    return -1;
}

long gettid_() { return (long)syscall(SYS_gettid); }

// ------------------------------------------------------------------------------------------------
// sentinel handlers (async-signal-safe: lock-free atomics only)
// ------------------------------------------------------------------------------------------------
struct SentinelRec {
    std::atomic<uint32_t> plain_calls{0};    // through sa_handler
    std::atomic<uint32_t> info_calls{0};     // through sa_sigaction
    std::atomic<uint32_t> bad_signo{0};
    std::atomic<uint32_t> null_info{0};
    std::atomic<int>      last_si_signo{0};
    std::atomic<int>      last_si_code{0};
    std::atomic<long>     last_si_value{0};
    std::atomic<long>     last_tid{0};
};
SentinelRec g_sent[NSIG_USED];
std::atomic<uint32_t> g_sent_unknown{0};

void sentinel_plain(int signo) {
    int i = sig_index(signo);
    if (i < 0) { g_sent_unknown.fetch_add(1); return; }
    g_sent[i].plain_calls.fetch_add(1);
    g_sent[i].last_tid.store(gettid_());
}
// a second, distinct plain handler so that "restored the wrong (older) handler" is visible
void sentinel_plain2(int signo) { sentinel_plain(signo); }

void sentinel_info(int signo, siginfo_t *si, void *) {
    int i = sig_index(signo);
    if (i < 0) { g_sent_unknown.fetch_add(1); return; }
    g_sent[i].info_calls.fetch_add(1);
    g_sent[i].last_tid.store(gettid_());
    if (si == nullptr) { g_sent[i].null_info.fetch_add(1); return; }
    g_sent[i].last_si_signo.store(si->si_signo);
    g_sent[i].last_si_code.store(si->si_code);
    g_sent[i].last_si_value.store((long)si->si_value.sival_ptr);
}
void sentinel_info2(int signo, siginfo_t *si, void *ctx) { sentinel_info(signo, si, ctx); }

//! D_DFL_SI / D_IGN_SI: SIG_DFL / SIG_IGN stored with the SA_SIGINFO flag set (legal: the kernel looks at the handler value only).
//! D_IGN_SI is used by the disposition matrix only (there the delivery happens in a forked child).
enum DispKind { D_DFL = 0, D_IGN, D_DFL_SI, D_PLAIN, D_PLAIN2, D_INFO, D_INFO2, D_KINDS_RANDOM, D_IGN_SI = D_KINDS_RANDOM, D_KINDS_ALL };
const char *dispname[] = {"DFL", "IGN", "DFL_with_SA_SIGINFO", "handler", "handler2", "siginfo", "siginfo2", "IGN_with_SA_SIGINFO"};
inline bool disp_is_default(int k) { return k == D_DFL || k == D_DFL_SI; }
inline bool disp_is_plain(int k) { return k == D_PLAIN || k == D_PLAIN2; }
inline bool disp_is_info(int k) { return k == D_INFO || k == D_INFO2; }
inline bool disp_is_sentinel(int k) { return disp_is_plain(k) || disp_is_info(k); }

struct Disp {
    int kind = D_DFL;
    struct sigaction snap;      // read back from the kernel right after it was installed
};

const int mask_pool[] = {SIGUSR1, SIGUSR2, SIGHUP, SIGTERM, SIGCHLD, SIGALRM, SIGWINCH};

std::string disp_to_string(const struct sigaction &sa) {
    std::string m;
    for (int s = 1; s < 65; ++s) if (sigismember(&sa.sa_mask, s) == 1) m += vh::fmt("%s%d", m.empty() ? "" : ",", s);
    const char *h = "?";
    void *p = (sa.sa_flags & SA_SIGINFO) ? (void *)sa.sa_sigaction : (void *)sa.sa_handler;
    if (p == (void *)SIG_DFL) h = "SIG_DFL";
    else if (p == (void *)SIG_IGN) h = "SIG_IGN";
    else if (p == (void *)sentinel_plain) h = "sentinel_plain";
    else if (p == (void *)sentinel_plain2) h = "sentinel_plain2";
    else if (p == (void *)sentinel_info) h = "sentinel_info";
    else if (p == (void *)sentinel_info2) h = "sentinel_info2";
    else h = "<foreign handler>";
    return vh::fmt("{handler=%s flags=0x%x mask=[%s]}", h, (unsigned)(sa.sa_flags & ~SA_RESTORER), m.c_str());
}

bool same_disp(const struct sigaction &a, const struct sigaction &b) {
    if ((a.sa_flags & ~SA_RESTORER) != (b.sa_flags & ~SA_RESTORER)) return false;
    if (a.sa_flags & SA_SIGINFO) { if (a.sa_sigaction != b.sa_sigaction) return false; }
    else { if (a.sa_handler != b.sa_handler) return false; }
    for (int s = 1; s < 65; ++s)
        if (sigismember(&a.sa_mask, s) != sigismember(&b.sa_mask, s)) return false;
    return true;
}

// ------------------------------------------------------------------------------------------------
// loops and events
// ------------------------------------------------------------------------------------------------
struct LoopCtx {
    int idx = 0;
    std::string engine;
    Loop *loop = nullptr;
    std::thread th;
    bool running = false;
    long tid = 0;
    std::atomic<bool> returned{false};      // set by the loop's thread after runLoop(kForever) came back
    bool exit_requested = false;            // orchestrator: exitLoop() was posted
    bool exit_reported = false;
};

enum Flavour { F_PERSIST = 0, F_ONESHOT, F_SELF_DISABLE, F_REARM };
const char *flname[] = {"persist", "oneshot", "persist+disables-itself-in-callback", "oneshot+re-enables-itself-in-callback"};

struct Ev {
    int id = 0;
    int loop = 0;
    std::vector<int> sigs;          // signal indices
    int flavour = F_PERSIST;
    int init_style = 0;             // 0 int, 1 std::set, 2 initializer_list
    int bad_signo = 0;              // badsig mode: a signal number nobody can subscribe to (SIGKILL, SIGSTOP, out of range) is in the set too
    SignalEvent *obj = nullptr;
    LoopCtx *lc = nullptr;
    // model
    bool alive = false;
    bool enabled = false;
    //! enable() returned false (it could not subscribe to bad_signo). What that leaves behind is not specified, so until
    //! the event is destroyed its callbacks are not judged and the signals of its set are exempt from the disposition check
    bool indeterminate = false;
    // observed (written on the loop thread inside the callback, read by the orchestrator after a barrier)
    std::atomic<uint32_t> got[NSIG_USED];
    std::atomic<uint32_t> got_foreign_signo{0};
    std::atomic<uint32_t> wrong_thread{0};
    std::atomic<uint32_t> inner_call_failed{0};
    //! armed by the orchestrator for ONE delivery: the callback of this (persistent) event disables that sibling - another
    //! event of the same loop subscribed to the same signal - from inside the dispatch
    std::atomic<Ev *> victim{nullptr};
    uint32_t seen[NSIG_USED];       // orchestrator: value of got[] at the previous check
    bool has(int si) const { for (int s : sigs) if (s == si) return true; return false; }
    Ev() { for (auto &g : got) g.store(0); for (auto &s : seen) s = 0; }
};

struct Ack {
    std::mutex m;
    std::condition_variable cv;
    bool done = false;
};

struct Case {
    vh::Rng *rng = nullptr;
    std::vector<std::unique_ptr<LoopCtx>> loops;
    std::vector<std::unique_ptr<Ev>> evs;
    Disp disp[NSIG_USED];
    std::vector<int> used_sigs;             // indices
    bool failed = false;
    vh::Sig sig;
    // statistics for the non-triviality rule
    bool multi_loop_same_signal_delivery = false;
    bool delivery_to_more_than_8_loops = false;
    //! events whose callback count is not judged in the current check: their subscription was changed between the delivery and
    //! their turn in the dispatch (disabled by a sibling's callback, or disabled/destroyed on the loop thread while the
    //! deliveries were still queued in the loop's pipe); 0 or 1 callback per delivery are both acceptable for them
    std::set<int> unjudged;
    //! one-shot events that re-enable themselves in their callback, hit by several deliveries that were all queued before the first
    //! dispatch: the first one must fire; whether deliveries raised BEFORE the re-enable reach the re-armed event is not fixed by
    //! the property (the unchanged tree delivers them unless the event was the loop's only subscription, in which case the pipe with
    //! the queued entries is closed by the one-shot's own disable) - judged as "at least one, at most one per delivery"
    std::set<int> rearm_queued;
    bool loops_held = false;            // every loop thread is parked in a task while the current deliveries are raised
    bool full_cycle_mid_history = false;
    int prev_cnt[NSIG_USED];
    bool failed_enable_destroyed[NSIG_USED];    // an event whose enable() had failed, with this signal in its set, was destroyed
    bool in_teardown = false;
    bool only_raise = false;            // TSan leg: raise() only (TSan runs a self-directed raise() handler synchronously, not pthread_sigqueue)
    //! a loop notified by the current delivery may unsubscribe (one-shot, or a callback that disables / re-enables its own
    //! event) on its own thread while the process-level handler is still running on the raising thread
    bool reaction_may_overlap_handler = false;
    bool reaction_user_driven = false;      // ... and at least one of those events changes its subscription from its callback (not a plain one-shot)
    uint32_t sent_plain_seen[NSIG_USED], sent_info_seen[NSIG_USED];
    Case() { for (auto &p : prev_cnt) p = 0; for (auto &p : failed_enable_destroyed) p = false; for (auto &p : sent_plain_seen) p = 0; for (auto &p : sent_info_seen) p = 0; }
};

void say(Case &C, const std::string &s) {
    vh::st().case_desc += s;
    vh::st().case_desc += "; ";
}

void fail(Case &C, const std::string &key, const std::string &detail) {
    vh::viol(key, detail);
    C.failed = true;
}

struct Case;
Case *g_case = nullptr;
void loop_exited_unasked(LoopCtx &L);

//! a task posted to a loop together with its acknowledgement. If the loop's thread left runLoop() although nobody asked it
//! to, the orchestrator abandons the task (it may still be sitting in the loop's queue and would otherwise be run, with
//! dangling references, when the loop object is cleaned up) and runs the work itself.
struct Posted {
    std::mutex m;
    std::condition_variable cv;
    bool done = false;
    bool abandoned = false;
    std::function<void()> f;
};

std::shared_ptr<Posted> post(LoopCtx &L, const std::function<void()> &f) {
    std::shared_ptr<Posted> p(new Posted);
    p->f = f;
    L.loop->runInLoop([p] {
        std::unique_lock<std::mutex> g(p->m);
        if (p->abandoned) return;
        g.unlock();
        p->f();                 // only the orchestrator abandons, and only while done is false and the loop thread is gone
        g.lock();
        p->done = true;
        p->cv.notify_one();
    }, "c04");
    return p;
}

//! waits for the acknowledgement. The 20 ms timeout is only a polling interval for "did the loop thread leave runLoop()";
//! no verdict depends on elapsed time.
void await(LoopCtx &L, const std::shared_ptr<Posted> &p) {
    std::unique_lock<std::mutex> lk(p->m);
    for (;;) {
        if (p->cv.wait_for(lk, std::chrono::milliseconds(20), [&p] { return p->done; })) return;
        if (L.returned.load() && !L.exit_requested) {
            // the thread has left runLoop() (its exit drain included, `returned` is stored after it): the task will not run there
            if (p->done) return;
            p->abandoned = true;
            lk.unlock();
            loop_exited_unasked(L);
            p->f();
            return;
        }
    }
}

//! run f on the loop's thread (acknowledged) or directly when the loop is not running
void on_loop(LoopCtx &L, const std::function<void()> &f) {
    if (!L.running) { f(); return; }
    await(L, post(L, f));
}

//! `rounds` rounds; in each round one task is posted to every running loop and all acknowledgements are awaited. Per loop a
//! task of round n+1 is posted after the task of round n ran, so it runs in a later pass.
//! After a synchronous (self-directed) delivery the pipes are written before round 1 is posted: round 1 runs in a pass that saw
//! the pipe readable, round 2 in a later pass => 2 rounds. After pthread_kill() at a loop thread the handler runs on that
//! thread at its next return to user mode, i.e. before that thread can run its round-1 task: when round 1 is acknowledged the
//! pipes are written, and rounds 2 and 3 play the part of the two rounds above => 3 rounds.
void barrier(Case &C, int rounds = 2);
void barrier_impl(std::vector<std::unique_ptr<LoopCtx>> &loops, int rounds) {
    for (int round = 0; round < rounds; ++round) {
        std::vector<std::pair<LoopCtx *, std::shared_ptr<Posted>>> acks;
        for (auto &L : loops) {
            if (!L->running) continue;
            acks.emplace_back(L.get(), post(*L, [] {}));
        }
        for (auto &a : acks) await(*a.first, a.second);
    }
}

void barrier(Case &C, int rounds) { barrier_impl(C.loops, rounds); }

//! the loop's thread left runLoop(kForever) by itself: a violation (its enabled events can never be called again); the
//! orchestrator joins the thread and from now on runs that loop's operations itself, so the case can be wound up
void loop_exited_unasked(LoopCtx &L) {
    if (L.th.joinable()) L.th.join();
    L.running = false;
    if (L.exit_reported || !g_case) return;
    L.exit_reported = true;
    fail(*g_case, "loop/runLoop-returned-although-nobody-asked-the-loop-to-exit",
         vh::fmt("the thread of loop L%d (%s) came back from runLoop(kForever) although exitLoop() was never called; its enabled signal events "
                 "cannot get callbacks any more (last delivery: see the script)", L.idx, L.engine.c_str()));
}

//! after a barrier: a loop whose thread is gone may still have acknowledged everything from its exit drain
void check_loops_alive(Case &C) {
    for (auto &L : C.loops)
        if (L->running && !L->exit_requested && L->returned.load()) loop_exited_unasked(*L);
}

int model_count(Case &C, int si) {
    int n = 0;
    for (auto &e : C.evs) if (e->alive && e->enabled && e->has(si)) ++n;
    return n;
}
int model_count_loop(Case &C, int si, int loop) {
    int n = 0;
    for (auto &e : C.evs) if (e->alive && e->enabled && e->loop == loop && e->has(si)) ++n;
    return n;
}
int model_loop_total(Case &C, int loop) {
    int n = 0;
    for (auto &e : C.evs) if (e->alive && e->enabled && e->loop == loop) n += (int)e->sigs.size();
    return n;
}
bool any_self_modifying_enabled(Case &C) {
    for (auto &e : C.evs) if (e->alive && e->enabled && e->flavour != F_PERSIST) return true;
    return false;
}

// ------------------------------------------------------------------------------------------------
// dispositions
// ------------------------------------------------------------------------------------------------
void install_disp(Case &C, int si, int kind, int flags_sel, unsigned mask_bits) {
    struct sigaction sa;
    memset(&sa, 0, sizeof sa);
    sigemptyset(&sa.sa_mask);
    for (unsigned b = 0; b < sizeof(mask_pool) / sizeof(mask_pool[0]); ++b)
        if (mask_bits & (1u << b)) sigaddset(&sa.sa_mask, mask_pool[b]);
    static const int flag_sets[] = {0, SA_RESTART, SA_NODEFER, SA_RESTART | SA_ONSTACK, SA_NODEFER | SA_RESTART};
    sa.sa_flags = flag_sets[flags_sel % 5];
    switch (kind) {
        case D_DFL: sa.sa_handler = SIG_DFL; break;
        case D_IGN: sa.sa_handler = SIG_IGN; break;
        case D_PLAIN: sa.sa_handler = sentinel_plain; break;
        case D_PLAIN2: sa.sa_handler = sentinel_plain2; break;
        case D_DFL_SI: sa.sa_sigaction = (void (*)(int, siginfo_t *, void *))SIG_DFL; sa.sa_flags |= SA_SIGINFO; break;
        case D_IGN_SI: sa.sa_sigaction = (void (*)(int, siginfo_t *, void *))SIG_IGN; sa.sa_flags |= SA_SIGINFO; break;
        case D_INFO: sa.sa_sigaction = sentinel_info; sa.sa_flags |= SA_SIGINFO; break;
        default: sa.sa_sigaction = sentinel_info2; sa.sa_flags |= SA_SIGINFO; break;
    }
    if (::sigaction(g_signo[si], &sa, nullptr) != 0) { fprintf(stderr, "VH-FATAL: sigaction-install\n"); abort(); }
    C.disp[si].kind = kind;
    if (::sigaction(g_signo[si], nullptr, &C.disp[si].snap) != 0) { fprintf(stderr, "VH-FATAL: sigaction-read\n"); abort(); }
    C.sig.add(si * 1000 + kind * 100 + (flags_sel % 5) * 10); C.sig.add(mask_bits);
}

//! after every step: every signal without a model subscriber must have exactly the harness's disposition
void check_dispositions(Case &C, const char *after) {
    for (int si : C.used_sigs) {
        int cnt = model_count(C, si);
        bool exempt = false;
        for (auto &e : C.evs) if (e->alive && e->indeterminate && e->has(si)) exempt = true;
        if (exempt) { vh::counter("disposition_check_exempt_failed_enable_alive"); continue; }
        if (cnt == 0) {
            struct sigaction cur;
            if (::sigaction(g_signo[si], nullptr, &cur) != 0) continue;
            vh::counter("disposition_checks_no_subscriber");
            if (!same_disp(cur, C.disp[si].snap)) {
                fail(C, std::string("disposition/not-restored/") + (C.failed_enable_destroyed[si] ? "after-destroying-event-whose-enable-failed"
                                                                   : C.prev_cnt[si] > 0 ? "after-last-unsubscribe" : "while-unsubscribed"),
                     vh::fmt("signal %s(%d) has no enabled subscriber after '%s' but sigaction() reports %s; before the first "
                             "subscription it was %s", g_signame[si], g_signo[si], after, disp_to_string(cur).c_str(),
                             disp_to_string(C.disp[si].snap).c_str()));
                // put it back so that later cases of this process start from a sane state
                ::sigaction(g_signo[si], &C.disp[si].snap, nullptr);
            }
            else C.failed_enable_destroyed[si] = false;
            if (C.prev_cnt[si] > 0) {
                vh::counter("last_unsubscribe_restore_checked");
                vh::counter(std::string("restore_checked_old_") + dispname[C.disp[si].kind]);
                if (!C.in_teardown) C.full_cycle_mid_history = true;
            }
        } else if (C.prev_cnt[si] == 0) {
            vh::counter("first_subscribe_install");
        }
        C.prev_cnt[si] = cnt;
    }
}

// ------------------------------------------------------------------------------------------------
// event operations (executed on the owning loop)
// ------------------------------------------------------------------------------------------------
void ev_callback(Ev *e, int signo) {
    int si = sig_index(signo);
    if (si < 0) e->got_foreign_signo.fetch_add(1);
    else e->got[si].fetch_add(1);
    if (e->lc->tid != gettid_()) e->wrong_thread.fetch_add(1);
    if (Ev *v = e->victim.exchange(nullptr)) { if (v->obj && !v->obj->disable()) e->inner_call_failed.fetch_add(1); }
    if (e->flavour == F_SELF_DISABLE) { if (!e->obj->disable()) e->inner_call_failed.fetch_add(1); }
    else if (e->flavour == F_REARM) { if (!e->obj->enable()) e->inner_call_failed.fetch_add(1); }
}

struct OpResult { bool ret = true; bool is_enabled = false; bool has_obj = false; };

void op_create(Case &C, Ev &e) {
    LoopCtx &L = *C.loops[e.loop];
    bool init_ok = false;
    on_loop(L, [&] {
        e.obj = L.loop->newSignalEvent("c04");
        Event::Mode mode = (e.flavour == F_ONESHOT || e.flavour == F_REARM) ? Event::Mode::kOneshot : Event::Mode::kPersist;
        if (e.init_style == 0 && e.sigs.size() == 1 && !e.bad_signo) {
            init_ok = e.obj->initialize(g_signo[e.sigs[0]], mode);
        } else if (e.init_style == 2 && e.sigs.size() == 2 && !e.bad_signo) {
            init_ok = e.obj->initialize({g_signo[e.sigs[0]], g_signo[e.sigs[1]]}, mode);
        } else if (e.init_style == 2 && e.sigs.size() == 1 && e.bad_signo) {
            init_ok = e.obj->initialize({g_signo[e.sigs[0]], e.bad_signo}, mode);
        } else {
            std::set<int> s;
            for (int si : e.sigs) s.insert(g_signo[si]);
            if (e.bad_signo) s.insert(e.bad_signo);
            init_ok = e.obj->initialize(s, mode);
        }
        Ev *ep = &e;
        e.obj->setCallback([ep](int signo) { ev_callback(ep, signo); });
    });
    e.alive = true; e.enabled = false;
    if (!init_ok) fail(C, "api/initialize-returned-false", vh::fmt("initialize() of event e%d returned false", e.id));
}

void check_is_enabled(Case &C, Ev &e, bool got, const char *after) {
    if (got != e.enabled)
        fail(C, "api/isEnabled-mismatch", vh::fmt("after %s e%d (%s): isEnabled()=%d, model says %d", after, e.id, flname[e.flavour], (int)got, (int)e.enabled));
}

struct MiniOp { int kind; Ev *e; };   // kind: 0 enable 1 disable 2 destroy

//! several operations on events of the same loop inside one loop task
//! the calls themselves (on the owning loop's thread)
void run_ops(const std::vector<MiniOp> &ops, std::vector<OpResult> &res) {
    for (size_t i = 0; i < ops.size(); ++i) {
        Ev &e = *ops[i].e;
        switch (ops[i].kind) {
            case 0: res[i].ret = e.obj->enable(); res[i].is_enabled = e.obj->isEnabled(); break;
            case 1: res[i].ret = e.obj->disable(); res[i].is_enabled = e.obj->isEnabled(); break;
            default: delete e.obj; e.obj = nullptr; break;
        }
    }
}
void account_ops(Case &C, LoopCtx &L, const std::vector<MiniOp> &ops, const std::vector<OpResult> &res);

void op_compound(Case &C, LoopCtx &L, const std::vector<MiniOp> &ops) {
    std::vector<OpResult> res(ops.size());
    on_loop(L, [&] { run_ops(ops, res); });
    account_ops(C, L, ops, res);
}

//! model bookkeeping and return-value checks for operations that have been executed
void account_ops(Case &C, LoopCtx &L, const std::vector<MiniOp> &ops, const std::vector<OpResult> &res) {
    for (size_t i = 0; i < ops.size(); ++i) {
        Ev &e = *ops[i].e;
        switch (ops[i].kind) {
            case 0:
                if (e.bad_signo && !res[i].ret) {
                    // refused, as it must be for a set that cannot be subscribed to completely; the event is not enabled
                    vh::counter("enable_failed_on_unsubscribable_signal");
                    if (!e.enabled) e.indeterminate = true;
                    if (res[i].is_enabled && !e.enabled)
                        fail(C, "api/isEnabled-true-after-enable-returned-false", vh::fmt("e%d: enable() returned false but isEnabled() is true", e.id));
                    break;
                }
                if (e.enabled) vh::counter("enable_while_enabled");
                for (int si : e.sigs) {
                    if (!e.enabled && model_count(C, si) > 0 && model_count_loop(C, si, e.loop) == 0) vh::counter("subscribe_second_loop_joins");
                    if (!e.enabled && model_count_loop(C, si, e.loop) > 0) vh::counter("subscribe_same_loop_same_signal");
                }
                if (!e.enabled && model_loop_total(C, e.loop) == 0 && L.running) vh::counter("loop_first_subscription_pipe_created");
                e.enabled = true;
                if (!res[i].ret) fail(C, "api/enable-returned-false", vh::fmt("enable() of e%d returned false", e.id));
                check_is_enabled(C, e, res[i].is_enabled, "enable");
                break;
            default: {
                bool was = e.enabled;
                if (ops[i].kind == 1 && !was) vh::counter("disable_while_disabled");
                if (ops[i].kind == 2 && was) vh::counter("destroy_while_enabled");
                if (was)
                    for (int si : e.sigs)
                        if (model_count_loop(C, si, e.loop) == 1 && model_count(C, si) > 1) vh::counter("unsubscribe_loop_leaves_others_remain");
                e.enabled = false;
                if (was && model_loop_total(C, e.loop) == 0) vh::counter("loop_last_subscription_pipe_closed");
                if (ops[i].kind == 1) {
                    if (!res[i].ret) fail(C, "api/disable-returned-false", vh::fmt("disable() of e%d returned false", e.id));
                    check_is_enabled(C, e, res[i].is_enabled, "disable");
                } else {
                    e.alive = false;
                    if (e.indeterminate) {
                        vh::counter("destroyed_event_whose_enable_failed");
                        for (int si : e.sigs) C.failed_enable_destroyed[si] = true;
                    }
                }
                break;
            }
        }
    }
}

// ------------------------------------------------------------------------------------------------
// deliveries
// ------------------------------------------------------------------------------------------------
//! V_KILL_LOOP: pthread_kill() from the orchestrator at the thread of loop `loop`, which is idle, i.e. (about to be) blocked
//! in its back-end wait: the process-level handler then runs ON that loop's thread and interrupts the wait (EINTR)
enum Via { V_RAISE = 0, V_SIGQUEUE, V_LOOP_RAISE, V_KILL_LOOP };

struct Delivery { int si; int via; int loop; long value; };

//! compare callbacks and sentinel invocations observed since the previous check with the model's expectation
void check_after_deliveries(Case &C, const std::vector<Delivery> &ds, const std::vector<std::vector<int>> &expect /* [ev][si] */,
                            const std::vector<std::vector<bool>> &was_enabled_for /* [ev][si] at the first delivery */) {
    // callbacks
    for (size_t k = 0; k < C.evs.size(); ++k) {
        Ev &e = *C.evs[k];
        if (e.got_foreign_signo.load())
            fail(C, "deliver/callback-with-unknown-signal-number", vh::fmt("e%d got a callback with a signal number nobody raised", e.id));
        if (e.wrong_thread.load())
            fail(C, "deliver/callback-on-wrong-thread", vh::fmt("e%d (loop %d) was called back %u times on a thread that is not its loop's thread",
                                                               e.id, e.loop, e.wrong_thread.load()));
        if (e.inner_call_failed.load())
            fail(C, "api/enable-or-disable-inside-callback-returned-false", vh::fmt("e%d (%s)", e.id, flname[e.flavour]));
        int rearm_got = 0, rearm_want = 0;
        for (int si = 0; si <= NSIG_USED; ++si) {
            if (si == NSIG_USED) {
                // a re-armed one-shot with queued deliveries: the first queued delivery must have fired it
                if (rearm_want >= 1 && rearm_got == 0 && !C.unjudged.count(e.id))
                    fail(C, "deliver/callback-missing", vh::fmt("e%d (%s) got no callback at all for %d queued delivery(ies) of its signals", e.id, flname[e.flavour], rearm_want));
                break;
            }
            uint32_t now = e.got[si].load();
            int delta = (int)(now - e.seen[si]);
            e.seen[si] = now;
            int want = expect[k][si];
            if (e.indeterminate && e.alive) { if (delta) vh::counter("callbacks_on_event_whose_enable_failed_not_judged", delta); continue; }
            if (C.unjudged.count(e.id)) {
                if (delta >= 0 && delta <= want) { if (want) vh::counter("callbacks_not_judged_subscription_changed_before_dispatch"); continue; }
                // more callbacks than deliveries while enabled is wrong whatever the reading
            }
            if (C.rearm_queued.count(e.id) && ds.size() >= 2) {
                rearm_got += delta; rearm_want += want;
                if (delta >= 0 && delta <= want) { if (want) vh::counter("callbacks_rearmed_oneshot_queued_deliveries_loosely_judged"); continue; }
            }
            if (delta == want) { if (want) vh::counter("callbacks_matched", want); continue; }
            std::string what = vh::fmt("e%d (loop %d/%s, %s, signals", e.id, e.loop, C.loops[e.loop]->engine.c_str(), flname[e.flavour]);
            for (int s : e.sigs) what += vh::fmt(" %s", g_signame[s]);
            what += vh::fmt(") got %d callback(s) for %s(%d) after %zu delivery(ies); the model expects %d", delta, g_signame[si], g_signo[si], ds.size(), want);
            {
                std::set<int> sub_loops;
                for (size_t j = 0; j < C.evs.size(); ++j) if (was_enabled_for[j][si]) sub_loops.insert(C.evs[j]->loop);
                what += vh::fmt("; %zu loop(s) had an enabled subscriber for that signal when it was raised", sub_loops.size());
            }
            const char *ctx = !C.reaction_may_overlap_handler ? "" : C.reaction_user_driven ? "/callback-changes-subscription-while-handler-runs"
                                                                                             : "/notified-loop-unsubscribes-while-handler-runs";
            if (C.reaction_may_overlap_handler)
                what += C.reaction_user_driven
                    ? " [in this delivery an event that disables / re-enables itself in its callback (or a one-shot) of a loop other than the raising thread "
                      "was subscribed: its loop changes the subscription on its own thread as soon as it is notified, possibly before the handler on the "
                      "raising thread has returned]"
                    : " [in this delivery a plain one-shot event of a loop other than the raising thread was subscribed: the library itself unsubscribes it "
                      "on its loop's thread as soon as that loop is notified, possibly before the handler on the raising thread has returned]";
            if (delta < want) {
                fail(C, std::string("deliver/callback-missing") + ctx, what);
            } else if (!e.has(si)) {
                fail(C, std::string("deliver/callback-for-signal-not-in-event-set") + ctx, what);
            } else if (!was_enabled_for[k][si] || !e.alive) {
                fail(C, std::string("deliver/callback-on-event-that-is-not-enabled") + ctx, what);
            } else if (e.flavour == F_ONESHOT) {
                fail(C, std::string("oneshot/fired-more-than-once") + ctx, what);
            } else {
                fail(C, std::string("deliver/callback-duplicated") + ctx, what);
            }
        }
    }
    // sentinels
    int want_plain[NSIG_USED] = {0}, want_info[NSIG_USED] = {0};
    for (auto &d : ds) {
        int k = C.disp[d.si].kind;
        if (disp_is_plain(k)) ++want_plain[d.si];
        if (disp_is_info(k)) ++want_info[d.si];
    }
    if (g_sent_unknown.load()) fail(C, "sentinel/called-with-unknown-signal", "a sentinel handler was called with a signal number nobody raised");
    for (int si = 0; si < NSIG_USED; ++si) {
        uint32_t p = g_sent[si].plain_calls.load(), i = g_sent[si].info_calls.load();
        int dp = (int)(p - C.sent_plain_seen[si]), di = (int)(i - C.sent_info_seen[si]);
        C.sent_plain_seen[si] = p; C.sent_info_seen[si] = i;
        bool subscribed = false;
        for (size_t k = 0; k < C.evs.size(); ++k) if (was_enabled_for[k][si]) subscribed = true;
        const char *ctx = subscribed ? "while-subscribed" : "while-unsubscribed";
        if (dp != want_plain[si] || di != want_info[si]) {
            std::string what = vh::fmt("signal %s(%d), disposition before the first subscription %s: sentinel sa_handler ran %d time(s) (expected %d), "
                                       "sentinel sa_sigaction ran %d time(s) (expected %d) for %zu delivery(ies), %s",
                                       g_signame[si], g_signo[si], disp_to_string(C.disp[si].snap).c_str(), dp, want_plain[si], di, want_info[si], ds.size(), ctx);
            if (dp < want_plain[si] || di < want_info[si]) fail(C, std::string("sentinel/previous-handler-not-invoked/") + ctx, what);
            else fail(C, std::string("sentinel/previous-handler-invoked-too-often/") + ctx, what);
        } else if (subscribed && (dp || di)) {
            vh::counter(dp ? "chained_previous_sa_handler" : "chained_previous_sa_sigaction", dp + di);
        }
        if (g_sent[si].bad_signo.load() || g_sent[si].null_info.load())
            fail(C, "sentinel/previous-handler-got-bad-arguments", vh::fmt("signal %s: null siginfo or wrong signo passed to the previous SA_SIGINFO handler", g_signame[si]));
    }
    // siginfo pass-through for the last delivery (single deliveries only, so "last" is unambiguous)
    if (ds.size() == 1) {
        const Delivery &d = ds[0];
        int k = C.disp[d.si].kind;
        if (disp_is_info(k) && !C.failed) {
            SentinelRec &r = g_sent[d.si];
            if (r.last_si_signo.load() != g_signo[d.si])
                fail(C, "sentinel/previous-handler-got-bad-arguments", vh::fmt("si_signo=%d for signal %d", r.last_si_signo.load(), g_signo[d.si]));
            if (d.via == V_SIGQUEUE) {
                vh::counter("siginfo_value_passthrough_checked");
                if (r.last_si_code.load() != SI_QUEUE || r.last_si_value.load() != d.value)
                    fail(C, "sentinel/previous-handler-got-bad-arguments",
                         vh::fmt("pthread_sigqueue value %ld arrived at the previous SA_SIGINFO handler as si_code=%d si_value=%ld",
                                 d.value, r.last_si_code.load(), r.last_si_value.load()));
            }
        }
    }
}

//! true when raising the signal now would run the default action (terminate the process) although the model has subscribers
bool fatal_to_raise(Case &C, int si) {
    struct sigaction cur;
    if (::sigaction(g_signo[si], nullptr, &cur) != 0) return false;
    void *h = (cur.sa_flags & SA_SIGINFO) ? (void *)cur.sa_sigaction : (void *)cur.sa_handler;
    if (h != (void *)SIG_DFL) return false;
    if (model_count(C, si) == 0) {
        // nobody subscribed: the generator only raises when the harness's own disposition is not the default action
        for (auto &e : C.evs) if (e->alive && e->indeterminate && e->has(si)) return true;   // not judged (see Ev::indeterminate), not raised
        if (!disp_is_default(C.disp[si].kind))
            fail(C, "disposition/not-restored/while-unsubscribed",
                 vh::fmt("signal %s(%d) has no subscriber and the harness installed %s, but sigaction() reports SIG_DFL (not raised)", g_signame[si],
                         g_signo[si], disp_to_string(C.disp[si].snap).c_str()));
        return true;
    }
    fail(C, "subscribe/default-disposition-while-an-enabled-event-is-subscribed",
         vh::fmt("%d enabled event(s) are subscribed to %s(%d) but the process disposition is SIG_DFL: a delivery would terminate the process "
                 "instead of reaching them (not raised)", model_count(C, si), g_signame[si], g_signo[si]));
    return true;
}

//! number of the system call the thread is blocked in, from /proc (-1: running / unknown)
long blocked_syscall(long tid) {
    char path[64], buf[64];
    snprintf(path, sizeof path, "/proc/self/task/%ld/syscall", tid);
    int fd = open(path, O_RDONLY);
    if (fd < 0) return -1;
    ssize_t n = read(fd, buf, sizeof buf - 1);
    close(fd);
    if (n <= 0) return -1;
    buf[n] = 0;
    if (buf[0] < '0' || buf[0] > '9') return -1;     // "running"
    return atol(buf);
}
bool is_wait_syscall(long nr) {
    return nr == SYS_epoll_wait || nr == SYS_epoll_pwait || nr == 441 /* epoll_pwait2 */ || nr == SYS_select || nr == SYS_pselect6;
}

void kill_loop_thread(Case &C, const Delivery &d) {
    LoopCtx &L = *C.loops[d.loop];
    // the loop has acknowledged everything and is heading for its wait; give it a moment to block there (bounded polling of
    // /proc, used for the coverage counter only - the delivery is legal and is judged whether or not the thread is blocked yet)
    bool waiting = false;
    for (int i = 0; i < 200 && !waiting; ++i) {
        waiting = is_wait_syscall(blocked_syscall(L.tid));
        if (!waiting) sched_yield();
    }
    vh::counter(waiting ? "deliveries_by_pthread_kill_at_waiting_loop_thread_" + L.engine : std::string("deliveries_by_pthread_kill_loop_thread_not_seen_waiting"));
    if (pthread_kill(L.th.native_handle(), g_signo[d.si]) != 0) { fprintf(stderr, "VH-FATAL: pthread_kill\n"); abort(); }
}

void do_raise(Case &C, const Delivery &d) {
    int signo = g_signo[d.si];
    if (d.via == V_KILL_LOOP) { kill_loop_thread(C, d); return; }
    auto fire = [signo, &d] {
        if (d.via == V_SIGQUEUE) {
            union sigval v; v.sival_ptr = (void *)d.value;
            if (pthread_sigqueue(pthread_self(), signo, v) != 0) { fprintf(stderr, "VH-FATAL: sigqueue\n"); abort(); }
        } else {
            if (::raise(signo) != 0) { fprintf(stderr, "VH-FATAL: raise\n"); abort(); }
        }
    };
    if (d.via == V_LOOP_RAISE) on_loop(*C.loops[d.loop], fire);
    else fire();
}

// pending expectation for deliveries made before the loops run
struct Pending {
    std::vector<Delivery> ds;
    std::vector<std::vector<int>> expect;
    std::vector<std::vector<bool>> was;
};

//! deliver the signals of ds back to back (each synchronously), then barrier, then check
//! (defer != nullptr: loops are not running yet; the expectation is handed back and checked after they started)
void deliver(Case &C, const std::vector<Delivery> &ds, Pending *defer = nullptr) {
    size_t ne = C.evs.size();
    std::vector<std::vector<int>> expect(ne, std::vector<int>(NSIG_USED, 0));
    std::vector<std::vector<bool>> was(ne, std::vector<bool>(NSIG_USED, false));
    for (size_t k = 0; k < ne; ++k)
        for (int si = 0; si < NSIG_USED; ++si)
            was[k][si] = C.evs[k]->alive && C.evs[k]->enabled && C.evs[k]->has(si);
    C.reaction_may_overlap_handler = false; C.reaction_user_driven = false;
    C.unjudged.clear(); C.rearm_queued.clear();
    for (auto &d : ds) if (fatal_to_raise(C, d.si)) { for (auto &e : C.evs) e->victim.store(nullptr); return; }
    for (auto &d : ds) {
        std::set<int> loops_hit; int receivers = 0;
        std::vector<Ev *> victims;
        for (size_t k = 0; k < ne; ++k) {
            Ev &e = *C.evs[k];
            if (!(e.alive && e.enabled && e.has(d.si))) continue;
            ++expect[k][d.si]; ++receivers; loops_hit.insert(e.loop);
            if ((e.flavour != F_PERSIST || e.victim.load()) && C.loops[e.loop]->running && !C.loops_held &&
                !((d.via == V_LOOP_RAISE || d.via == V_KILL_LOOP) && d.loop == e.loop)) {
                C.reaction_may_overlap_handler = true;
                if (e.flavour != F_ONESHOT || e.victim.load()) C.reaction_user_driven = true;
                vh::counter("window_reaction_may_overlap_handler");
            }
            if (e.flavour == F_ONESHOT || e.flavour == F_SELF_DISABLE) {
                e.enabled = false;
                vh::counter(e.flavour == F_ONESHOT ? "oneshot_fired" : "self_disable_fired");
                if (model_count(C, d.si) == 0) vh::counter("restore_triggered_from_inside_dispatch");
                if (e.sigs.size() > 1) vh::counter("oneshot_multi_signal_fired");
            } else if (e.flavour == F_REARM) { vh::counter("rearm_fired"); if (C.loops_held) C.rearm_queued.insert(e.id); }
            if (Ev *v = e.victim.load()) victims.push_back(v);
        }
        // a sibling disabled from inside the dispatch: whether it is still called depends on its place in the dispatch order, which the
        // property does not fix - not judged for this delivery; afterwards it is disabled. Everybody else is judged as usual.
        for (Ev *v : victims) { C.unjudged.insert(v->id); v->enabled = false; }
        vh::counter("deliveries");
        vh::counter(vh::fmt("deliveries_to_%d_loops", (int)std::min<size_t>(loops_hit.size(), 3)));
        vh::counter_max("max_loops_subscribed_to_one_signal", loops_hit.size());
        if (loops_hit.size() > 8) {
            vh::counter("deliveries_to_more_than_8_loops");
            if (loops_hit.size() > 16) vh::counter("deliveries_to_more_than_16_loops");
            C.delivery_to_more_than_8_loops = true;
        }
        if (receivers == 0) vh::counter(disp_is_sentinel(C.disp[d.si].kind) ? "deliveries_no_subscriber_sentinel_only" : "deliveries_no_subscriber_ignored");
        if (receivers >= 2) vh::counter("deliveries_to_several_events");
        if (loops_hit.size() >= 2 && receivers >= 2) C.multi_loop_same_signal_delivery = true;
        if (d.via == V_LOOP_RAISE) vh::counter("deliveries_raised_on_a_loop_thread");
        if (d.via == V_KILL_LOOP) {
            vh::counter("deliveries_by_pthread_kill_at_loop_thread");
            if (loops_hit.count(d.loop)) vh::counter("deliveries_by_pthread_kill_at_loop_thread_with_own_subscriber");
        }
        if (d.via == V_SIGQUEUE) vh::counter("deliveries_sigqueue");
        for (auto &L : C.loops) if (!L->running && loops_hit.count(L->idx)) vh::counter("deliveries_before_loop_started");
        do_raise(C, d);
    }
    if (ds.size() > 1) { vh::counter("bursts"); vh::counter_max("max_burst", ds.size()); if (ds.size() > 10) vh::counter("bursts_over_one_pipe_read"); }
    if (defer) { defer->ds = ds; defer->expect = expect; defer->was = was; return; }
    bool by_kill = false;
    for (auto &d : ds) if (d.via == V_KILL_LOOP) by_kill = true;
    barrier(C, by_kill ? 3 : 2);
    check_loops_alive(C);
    if (C.failed) return;       // a loop thread is gone: reported; the counts of this delivery would only repeat it
    if (by_kill && ds.size() == 1 && disp_is_sentinel(C.disp[ds[0].si].kind) && g_sent[ds[0].si].last_tid.load() == C.loops[ds[0].loop]->tid)
        vh::counter("handler_ran_on_loop_thread");
    check_after_deliveries(C, ds, expect, was);
    for (auto &e : C.evs) e->victim.store(nullptr);
}

// ------------------------------------------------------------------------------------------------
// deliveries queued behind a busy loop
// ------------------------------------------------------------------------------------------------
struct Gate { std::mutex m; std::condition_variable cv; int entered = 0; bool open = false; };

//! Every running loop is parked inside a task; the deliveries of ds are raised back to back (each synchronously, from the
//! orchestrator) and pile up in the loops' pipes; then each loop, still inside that task and therefore before it reads its
//! pipe, executes release_ops[loop] (disable / destroy only). Nothing can react while the handler runs, so one-shot and
//! self-modifying events are allowed here; the sequential model is exact because a loop dispatches its pipe in raise order.
void held_burst(Case &C, const std::vector<Delivery> &ds, const std::vector<std::vector<MiniOp>> &release_ops) {
    std::shared_ptr<Gate> gate(new Gate);
    size_t nl = C.loops.size();
    std::vector<std::vector<OpResult>> res(nl);
    std::vector<std::pair<LoopCtx *, std::shared_ptr<Posted>>> posted;
    int parked_wanted = 0;
    for (size_t l = 0; l < nl; ++l) {
        LoopCtx &L = *C.loops[l];
        res[l].resize(release_ops[l].size());
        if (!L.running) continue;
        const std::vector<MiniOp> *ops = &release_ops[l];
        std::vector<OpResult> *rs = &res[l];
        posted.emplace_back(&L, post(L, [gate, ops, rs] {
            {
                std::unique_lock<std::mutex> g(gate->m);
                ++gate->entered;
                gate->cv.notify_all();
                gate->cv.wait(g, [&gate] { return gate->open; });
            }
            run_ops(*ops, *rs);
        }));
        ++parked_wanted;
    }
    bool all_parked = true;
    {
        std::unique_lock<std::mutex> g(gate->m);
        while (gate->entered < parked_wanted) {
            gate->cv.wait_for(g, std::chrono::milliseconds(20));       // polling interval only
            bool dead = false;
            for (auto &pp : posted) if (pp.first->returned.load() && !pp.first->exit_requested) dead = true;
            if (dead && gate->entered < parked_wanted) { all_parked = false; break; }
        }
    }
    Pending pend;
    bool raised = false;
    if (all_parked && !C.failed) {
        C.loops_held = true;
        deliver(C, ds, &pend);
        C.loops_held = false;
        raised = !pend.ds.empty();
    }
    { std::lock_guard<std::mutex> g(gate->m); gate->open = true; gate->cv.notify_all(); }
    for (auto &pp : posted) await(*pp.first, pp.second);
    check_loops_alive(C);

    // coverage: per loop, the entries its pipe held (a loop is notified iff it had a subscriber when the signal was raised) and
    // which of them still find a subscriber when they are dispatched, in batches of 10 (one read())
    if (raised) {
        for (size_t l = 0; l < nl; ++l) {
            std::set<int> on;       // events of this loop enabled when the loop starts to dispatch
            for (size_t k = 0; k < pend.was.size(); ++k) {
                Ev &e = *C.evs[k];
                if (e.loop != (int)l) continue;
                bool was_on = false; for (int si = 0; si < NSIG_USED; ++si) if (pend.was[k][si]) was_on = true;
                bool released = false; for (auto &op : release_ops[l]) if (op.e == &e) released = true;
                if (was_on && !released) on.insert((int)k);
            }
            std::vector<bool> live;
            for (auto &d : ds) {
                bool exists = false;
                for (size_t k = 0; k < pend.was.size(); ++k) if (C.evs[k]->loop == (int)l && pend.was[k][d.si]) exists = true;
                if (!exists) continue;
                bool lv = false;
                std::vector<int> consumed;
                for (int k : on) if (C.evs[k]->has(d.si)) { lv = true; if (C.evs[k]->flavour == F_ONESHOT || C.evs[k]->flavour == F_SELF_DISABLE) consumed.push_back(k); }
                for (int k : consumed) on.erase(k);
                live.push_back(lv);
            }
            if (live.size() >= 2) vh::counter("pipes_with_several_queued_entries");
            for (size_t b = 0; b < live.size(); b += 10) {
                bool stale_seen = false, hit = false;
                for (size_t i = b; i < live.size() && i < b + 10; ++i) { if (!live[i]) stale_seen = true; else if (stale_seen) hit = true; }
                if (hit) vh::counter("batches_with_stale_entry_before_live_entry");
            }
        }
    }
    // the operations run at release time changed subscriptions between the deliveries and their dispatch
    for (size_t l = 0; l < nl; ++l) {
        for (auto &op : release_ops[l]) if (op.e->alive) C.unjudged.insert(op.e->id);
        if (!release_ops[l].empty()) { account_ops(C, *C.loops[l], release_ops[l], res[l]); vh::counter("held_burst_release_ops", release_ops[l].size()); }
    }
    vh::counter("held_bursts");
    if (C.failed || !raised) return;
    barrier(C, 2);
    check_loops_alive(C);
    if (C.failed) return;
    check_after_deliveries(C, pend.ds, pend.expect, pend.was);
}

// ------------------------------------------------------------------------------------------------
// loop threads
// ------------------------------------------------------------------------------------------------
void start_loop(LoopCtx &L) {
    Loop *lp = L.loop;
    LoopCtx *Lp = &L;
    // the thread id is recorded before runLoop(): a signal delivered before the loop started is dispatched in the first pass
    L.th = std::thread([lp, Lp] { Lp->tid = gettid_(); lp->runLoop(Loop::Mode::kForever); Lp->returned.store(true); });
    L.running = true;
    on_loop(L, [] {});
}
void stop_loop(LoopCtx &L) {
    if (!L.running) return;
    Loop *lp = L.loop;
    L.exit_requested = true;
    lp->runInLoop([lp] { lp->exitLoop(); }, "c04-exit");
    L.th.join();
    L.running = false;
}

const char *evdesc(Ev &e, std::string &buf) {
    buf = vh::fmt("e%d@L%d[", e.id, e.loop);
    for (size_t i = 0; i < e.sigs.size(); ++i) buf += vh::fmt("%s%s", i ? "," : "", g_signame[e.sigs[i]]);
    if (e.bad_signo) buf += vh::fmt(",+unsubscribable signal %d", e.bad_signo);
    buf += vh::fmt("](%s,init-style %d)", flname[e.flavour], e.init_style);
    return buf.c_str();
}

Ev &new_ev(Case &C, int loop, std::vector<int> sigs, int flavour, int init_style) {
    std::unique_ptr<Ev> e(new Ev);
    e->id = (int)C.evs.size(); e->loop = loop; e->sigs = sigs; e->flavour = flavour; e->init_style = init_style;
    e->lc = C.loops[loop].get();
    C.evs.push_back(std::move(e));
    return *C.evs.back();
}

void teardown(Case &C, bool stop_first) {
    C.in_teardown = true;
    if (stop_first) {
        say(C, "stop loops, then destroy the remaining events on the orchestrator thread");
        for (auto &L : C.loops) stop_loop(*L);
        vh::counter("teardown_destroy_after_loop_stopped");
    }
    // destroy in a seeded order
    std::vector<Ev *> live;
    for (auto &e : C.evs) if (e->alive) live.push_back(e.get());
    for (size_t i = live.size(); i > 1; --i) std::swap(live[i - 1], live[C.rng->below(i)]);
    for (Ev *e : live) {
        op_compound(C, *C.loops[e->loop], {MiniOp{2, e}});
        if (!C.failed) check_dispositions(C, "destroy (teardown)");
    }
    for (auto &L : C.loops) stop_loop(*L);
    for (auto &L : C.loops) { delete L->loop; L->loop = nullptr; }
    // hygiene for the next case of this process
    for (int si = 0; si < NSIG_USED; ++si) {
        struct sigaction sa; memset(&sa, 0, sizeof sa); sigemptyset(&sa.sa_mask); sa.sa_handler = SIG_IGN;
        ::sigaction(g_signo[si], &sa, nullptr);
    }
}

char **g_argv = nullptr;
int g_argc = 0;

//! A violation means the process-wide signal bookkeeping of the library (and the disposition table) may be stale; judging
//! further cases in this process would only produce secondary alarms. Finish this process's report and continue the shard
//! in a fresh process image (same pid, so the runner does not notice).
void continue_in_fresh_process(uint64_t idx) {
    vh::Args &a = vh::st().args;
    vh::end_case();
    vh::finish();
    fflush(stdout); fflush(stderr);
    uint64_t next = idx + 1, end = a.first + a.count;
    long budget = a.num("refail-budget", 25);
    if (next >= end) _exit(0);
    if (budget <= 0) {
        // a tree on which case after case fails: the rest of this shard is left unexplored (the run reports violations anyway)
        fprintf(stderr, "c04: %llu cases of this shard left unexplored after repeated violations\n", (unsigned long long)(end - next));
        _exit(0);
    }
    std::vector<std::string> args;
    for (int i = 0; i < g_argc; ++i) {
        std::string k = g_argv[i];
        if ((k == "--first" || k == "--count" || k == "--refail-budget") && i + 1 < g_argc) { ++i; continue; }
        args.push_back(k);
    }
    args.push_back("--first"); args.push_back(std::to_string(next));
    args.push_back("--count"); args.push_back(std::to_string(end - next));
    args.push_back("--refail-budget"); args.push_back(std::to_string(budget - 1));
    std::vector<char *> av;
    for (auto &x : args) av.push_back(const_cast<char *>(x.c_str()));
    av.push_back(nullptr);
    execv("/proc/self/exe", av.data());
    fprintf(stderr, "VH-FATAL: re-exec\n");
    _exit(98);
}

void finish_case(Case &C, bool stop_first, int nloops, uint64_t idx) {
    bool two_on_one = C.multi_loop_same_signal_delivery;
    if (C.delivery_to_more_than_8_loops) vh::counter("scenarios_with_more_than_8_loops_on_one_signal");
    teardown(C, stop_first);
    bool nontrivial = nloops >= 2 && two_on_one && C.full_cycle_mid_history && !C.failed;
    vh::note_case(C.sig.h, nontrivial);
    if (nontrivial && vh::want_sample())
        vh::sample(vh::jstr(vh::st().case_desc.substr(0, 3000)));
    if (C.failed) continue_in_fresh_process(idx);
}

void reset_globals() {
    for (auto &s : g_sent) {
        s.plain_calls = 0; s.info_calls = 0; s.bad_signo = 0; s.null_info = 0; s.last_si_signo = 0; s.last_si_code = 0; s.last_si_value = 0;
    }
    g_sent_unknown = 0;
}

// ------------------------------------------------------------------------------------------------
// random histories
// ------------------------------------------------------------------------------------------------
void random_case(uint64_t idx, vh::Rng &r) {
    reset_globals();
    Case C; C.rng = &r; g_case = &C;
    C.only_raise = vh::st().args.num("only-raise", 0) != 0;
    const bool badsig = vh::st().args.mode == "badsig";

    // signals of this case: few, so that several events share one
    int nsig = 1 + (int)r.below(3) + (r.chance(1, 4) ? 1 : 0);
    {
        std::vector<int> all; for (int i = 0; i < NSIG_USED; ++i) all.push_back(i);
        for (int i = 0; i < nsig; ++i) { size_t j = i + r.below(all.size() - i); std::swap(all[i], all[j]); C.used_sigs.push_back(all[i]); }
    }
    for (int si = 0; si < NSIG_USED; ++si) {
        // signals not used by the case are ignored so that a stray delivery cannot kill the process
        bool used = false; for (int u : C.used_sigs) if (u == si) used = true;
        if (!used) { install_disp(C, si, D_IGN, 0, 0); continue; }
        int kind = (int)r.below(D_KINDS_RANDOM);
        if (r.chance(1, 3)) kind = r.chance(1, 2) ? D_PLAIN : D_INFO;
        install_disp(C, si, kind, (int)r.below(5), disp_is_sentinel(kind) ? (unsigned)r.below(128) : 0);
        vh::counter(std::string("old_disposition_") + dispname[kind]);
        say(C, vh::fmt("disposition %s=%s", g_signame[si], disp_to_string(C.disp[si].snap).c_str()));
    }

    // one history in six has a wide population of loops (9-24, each on its own thread), (nearly) all of them subscribed to the
    // same signal: the process-level handler has to notify every one of them (a loop costs 3-4 descriptors, far below
    // FD_SETSIZE for the select back-end)
    const bool wide = r.chance(1, 6);
    int nloops = wide ? 9 + (int)r.below(16) : 1 + (int)r.below(3);
    if (wide) vh::counter("scenarios_wide_loop_population");
    for (int i = 0; i < nloops; ++i) {
        std::unique_ptr<LoopCtx> L(new LoopCtx);
        L->idx = i; L->engine = r.chance(1, 2) ? "epoll" : "select";
        L->loop = Loop::New(L->engine);
        vh::counter("loops_" + L->engine);
        C.sig.add(L->engine);
        C.loops.push_back(std::move(L));
    }
    say(C, vh::fmt("%d loop(s):", nloops));
    for (auto &L : C.loops) say(C, vh::fmt("L%d=%s", L->idx, L->engine.c_str()));

    auto gen_event = [&]() -> Ev & {
        int loop = (int)r.below(nloops);
        std::vector<int> sigs;
        int style = 0;
        unsigned pick = (unsigned)r.below(10);
        // one new event in three joins an existing one: same loop, one of its signals (so that 3 and more events of one loop share a signal)
        std::vector<Ev *> mates;
        for (auto &e : C.evs) if (e->alive) mates.push_back(e.get());
        if (!mates.empty() && r.chance(1, 3)) {
            Ev *m = r.pick(mates);
            loop = m->loop;
            sigs.push_back(r.pick(m->sigs));
            style = r.chance(1, 4) ? 1 : 0;
            vh::counter("events_created_next_to_a_sibling");
        } else
        if (pick < 6 || C.used_sigs.size() == 1) { sigs.push_back(r.pick(C.used_sigs)); style = r.chance(1, 4) ? 1 : 0; }
        else {
            size_t want = pick < 9 ? 2 : C.used_sigs.size();
            std::vector<int> pool = C.used_sigs;
            for (size_t i = 0; i < want && i < pool.size(); ++i) { size_t j = i + r.below(pool.size() - i); std::swap(pool[i], pool[j]); sigs.push_back(pool[i]); }
            style = (sigs.size() == 2 && r.chance(1, 2)) ? 2 : 1;
            vh::counter("events_with_signal_set");
        }
        int fl = F_PERSIST;
        unsigned f = (unsigned)r.below(20);
        if (f >= 11 && f < 16) fl = F_ONESHOT; else if (f >= 16 && f < 18) fl = F_SELF_DISABLE; else if (f >= 18) fl = F_REARM;
        int bad = 0;
        if (badsig && r.chance(2, 5)) {
            // a set that cannot be subscribed to completely: SIGKILL / SIGSTOP cannot be caught, 100 is not a signal number.
            // Which signals of the set are tried first depends on the numeric order (SIGHUP < SIGKILL < SIGUSR1 < SIGUSR2 < SIGSTOP < RT)
            static const int bads[] = {SIGKILL, SIGSTOP, 100};
            bad = bads[r.below(3)];
            fl = F_PERSIST;
            style = (sigs.size() == 1 && r.chance(1, 2)) ? 2 : 1;
            vh::counter("events_with_unsubscribable_signal");
        }
        Ev &e = new_ev(C, loop, sigs, fl, style);
        e.bad_signo = bad;
        C.sig.add(bad);
        C.sig.add(loop); C.sig.add(fl); C.sig.add(style); for (int s : sigs) C.sig.add(100 + s);
        vh::counter(std::string("events_") + (fl == F_PERSIST ? "persist" : fl == F_ONESHOT ? "oneshot" : fl == F_SELF_DISABLE ? "self_disable" : "rearm"));
        vh::counter(vh::fmt("init_style_%d", style));
        return e;
    };

    std::string b;
    Pending pend;
    bool have_pending = false;

    // ---- phase 1 (one case in three): subscriptions made before the loops run, as a main() would do
    bool prerun = r.chance(1, 3);
    if (prerun) {
        int n = 1 + (int)r.below(5);
        for (int i = 0; i < n && !C.failed; ++i) {
            Ev &e = gen_event();
            op_create(C, e);
            say(C, vh::fmt("[pre-run] new %s", evdesc(e, b)));
            if (r.chance(4, 5)) {
                op_compound(C, *C.loops[e.loop], {MiniOp{0, &e}});
                say(C, vh::fmt("[pre-run] enable e%d", e.id));
                vh::counter("subscriptions_before_loop_started");
            }
            check_dispositions(C, "pre-run enable");
        }
        if (!C.failed && r.chance(1, 2)) {
            // deliveries before the loop threads exist: the callbacks must arrive once the loops run
            int nd = 1 + (int)r.below(2);
            std::vector<Delivery> ds;
            bool selfmod = any_self_modifying_enabled(C);
            for (int i = 0; i < nd; ++i) {
                int si = r.pick(C.used_sigs);
                if (model_count(C, si) == 0 && disp_is_default(C.disp[si].kind)) continue;
                if (selfmod && !ds.empty()) break;
                ds.push_back(Delivery{si, (r.chance(1, 3) && !C.only_raise) ? V_SIGQUEUE : V_RAISE, 0, (long)(r.below(1000000) + 1)});
            }
            if (!ds.empty()) {
                for (auto &d : ds) {
                    say(C, vh::fmt("[pre-run] %s %s", d.via == V_SIGQUEUE ? "pthread_sigqueue" : "raise", g_signame[d.si]));
                    C.sig.add(7000 + d.si * 10 + d.via);
                }
                have_pending = true;
                deliver(C, ds, &pend);     // updates the model (one-shots) and raises; checked once the loops run
            }
        }
    }
    for (auto &L : C.loops) start_loop(*L);
    if (have_pending && !C.failed) {
        barrier(C);
        // events created after the pending delivery do not exist yet: sizes agree because nothing was created in between
        check_after_deliveries(C, pend.ds, pend.expect, pend.was);
        vh::counter("prerun_deliveries_checked");
    }
    if (!C.failed) check_dispositions(C, "loops started");

    // ---- wide population: one event per loop (a few loops left out) on one signal, enabled in a seeded order; the history
    // below then churns them (a loop whose only subscription goes away closes its pipe and gets a new one - with other
    // descriptor numbers - when it subscribes again, so the order of the loops in the handler's list keeps changing)
    int wide_sig = -1;
    if (wide && !C.failed) {
        wide_sig = r.pick(C.used_sigs);
        std::vector<int> order;
        for (int i = 0; i < nloops; ++i) order.push_back(i);
        for (size_t i = order.size(); i > 1; --i) std::swap(order[i - 1], order[r.below(i)]);
        say(C, vh::fmt("wide population on %s:", g_signame[wide_sig]));
        for (int li : order) {
            if (C.failed) break;
            if (r.chance(1, 12)) continue;
            std::vector<int> sigs(1, wide_sig);
            if (C.used_sigs.size() > 1 && r.chance(1, 5)) { int o = r.pick(C.used_sigs); if (o != wide_sig) sigs.push_back(o); }
            unsigned f = (unsigned)r.below(12);
            int fl = f < 9 ? F_PERSIST : f == 9 ? F_ONESHOT : f == 10 ? F_SELF_DISABLE : F_REARM;
            Ev &e = new_ev(C, li, sigs, fl, sigs.size() == 1 ? (r.chance(1, 3) ? 1 : 0) : (r.chance(1, 2) ? 2 : 1));
            C.sig.add(li); C.sig.add(fl); for (int s : sigs) C.sig.add(100 + s);
            op_create(C, e);
            say(C, vh::fmt("new %s", evdesc(e, b)));
            if (!C.failed && r.chance(9, 10)) {
                op_compound(C, *C.loops[li], {MiniOp{0, &e}});
                say(C, vh::fmt("enable e%d", e.id));
            }
        }
        if (!C.failed) check_dispositions(C, "wide population");
    }
    const size_t live_cap = wide ? (size_t)nloops + 6 : 8, total_cap = wide ? (size_t)nloops + 14 : 14;

    // ---- phase 2: the history
    int steps = 20 + (int)r.below(41);
    for (int st = 0; st < steps && !C.failed; ++st) {
        unsigned op = (unsigned)r.below(100);
        std::vector<Ev *> live, live_dis, live_en;
        for (auto &e : C.evs) if (e->alive) { live.push_back(e.get()); (e->enabled ? live_en : live_dis).push_back(e.get()); }
        C.sig.add(op);
        if (live.empty() || (op < 12 && live.size() < live_cap && C.evs.size() < total_cap)) {
            Ev &e = gen_event();
            op_create(C, e);
            say(C, vh::fmt("new %s", evdesc(e, b)));
            if (r.chance(3, 4) && !C.failed) {
                op_compound(C, *C.loops[e.loop], {MiniOp{0, &e}});
                say(C, vh::fmt("enable e%d", e.id));
            }
        } else if (op < 30) {
            Ev *e = (!live_dis.empty() && r.chance(4, 5)) ? r.pick(live_dis) : r.pick(live);
            op_compound(C, *C.loops[e->loop], {MiniOp{0, e}});
            say(C, vh::fmt("enable e%d", e->id));
            C.sig.add(e->id);
        } else if (op < 46) {
            Ev *e = (!live_en.empty() && r.chance(4, 5)) ? r.pick(live_en) : r.pick(live);
            op_compound(C, *C.loops[e->loop], {MiniOp{1, e}});
            say(C, vh::fmt("disable e%d", e->id));
            C.sig.add(e->id);
        } else if (op < 53) {
            Ev *e = r.pick(live);
            if (badsig && r.chance(2, 3))     // keep events whose enable() failed short-lived: their signals are exempt from checks meanwhile
                for (Ev *x : live) if (x->indeterminate) { e = x; break; }
            say(C, vh::fmt("destroy e%d (%s)", e->id, e->enabled ? "enabled" : "disabled"));
            op_compound(C, *C.loops[e->loop], {MiniOp{2, e}});
            C.sig.add(e->id);
        } else if (op < 60) {
            // compound: 2-3 operations on events of one loop inside a single loop task
            Ev *first = r.pick(live);
            std::vector<Ev *> same;
            for (Ev *e : live) if (e->loop == first->loop) same.push_back(e);
            int n = 2 + (int)r.below(2);
            std::vector<MiniOp> ops;
            std::set<Ev *> destroyed;
            std::string d = vh::fmt("on L%d in one task:", first->loop);
            for (int i = 0; i < n; ++i) {
                Ev *e = r.pick(same);
                if (destroyed.count(e)) continue;
                int k = (int)r.below(7); k = k < 3 ? 0 : k < 6 ? 1 : 2;
                if (k == 2) destroyed.insert(e);
                ops.push_back(MiniOp{k, e});
                d += vh::fmt(" %s e%d", k == 0 ? "enable" : k == 1 ? "disable" : "destroy", e->id);
                C.sig.add(k * 100 + e->id);
            }
            say(C, d);
            vh::counter("compound_steps");
            op_compound(C, *C.loops[first->loop], ops);
        } else if (op < 64) {
            // change the disposition of a signal nobody is subscribed to (a new "before the first subscription")
            std::vector<int> free_sigs;
            for (int si : C.used_sigs) {
                bool maybe_held = false;    // an event whose enable() failed may still hold a subscription: not "nobody is subscribed"
                for (auto &e : C.evs) if (e->alive && e->indeterminate && e->has(si)) maybe_held = true;
                if (model_count(C, si) == 0 && !maybe_held) free_sigs.push_back(si);
            }
            if (!free_sigs.empty()) {
                int si = r.pick(free_sigs);
                int kind = (int)r.below(D_KINDS_RANDOM);
                install_disp(C, si, kind, (int)r.below(5), disp_is_sentinel(kind) ? (unsigned)r.below(128) : 0);
                say(C, vh::fmt("re-install disposition %s=%s", g_signame[si], disp_to_string(C.disp[si].snap).c_str()));
                vh::counter("disposition_changed_between_cycles");
            }
        } else {
            // deliveries
            bool selfmod = any_self_modifying_enabled(C);
            // one delivery step in five: every loop is parked in a task while 2-14 deliveries (mostly different signal numbers) are
            // raised, and 0-2 of the subscribed events are disabled / destroyed on their loop before it reads its pipe
            const bool held = r.chance(1, 5);
            int nd = 1;
            if (held) nd = r.chance(1, 6) ? 11 + (int)r.below(4) : 2 + (int)r.below(5);
            else if (!selfmod && r.chance(1, 5)) nd = r.chance(1, 5) ? 11 + (int)r.below(15) : 2 + (int)r.below(6);
            std::vector<Delivery> ds;
            bool same_sig = held ? r.chance(1, 6) : r.chance(1, 2);
            std::vector<int> subscribed;
            for (int si : C.used_sigs) if (model_count(C, si) > 0) subscribed.push_back(si);
            auto pick_sig = [&]() -> int {
                if (wide && r.chance(2, 3)) return wide_sig;
                return (!subscribed.empty() && r.chance(2, 3)) ? r.pick(subscribed) : r.pick(C.used_sigs);
            };
            int si0 = pick_sig();
            for (int i = 0; i < nd; ++i) {
                int si = same_sig ? si0 : pick_sig();
                if (model_count(C, si) == 0 && disp_is_default(C.disp[si].kind)) continue;    // the default action would end the process
                int via = (int)r.below(12); via = via < 4 ? V_RAISE : via < 6 ? V_SIGQUEUE : via < 9 ? V_LOOP_RAISE : V_KILL_LOOP;
                if (C.only_raise && via == V_SIGQUEUE) via = V_RAISE;
                // pthread_kill at a loop thread: single deliveries only (two signals pending on one thread may merge), and not under
                // TSan (it runs the handler of a foreign signal at a later safe point, which voids the barrier argument)
                if (via == V_KILL_LOOP && (nd > 1 || C.only_raise)) via = V_RAISE;
                if (held && via != V_SIGQUEUE) via = V_RAISE;      // the loop threads are parked: raised from the orchestrator only
                int target = (int)r.below(nloops);
                if (via == V_KILL_LOOP && r.chance(2, 3)) {
                    // prefer a loop that itself has an enabled subscriber: the interrupted loop then has to dispatch the signal too
                    std::vector<int> cand;
                    for (auto &e : C.evs) if (e->alive && e->enabled && e->has(si)) cand.push_back(e->loop);
                    if (!cand.empty()) target = r.pick(cand);
                }
                if (via == V_KILL_LOOP && !C.loops[target]->running) via = V_RAISE;
                Delivery d{si, via, target, (long)(r.below(1000000) + 1)};
                ds.push_back(d);
                C.sig.add(5000 + si * 100 + via * 10 + d.loop);
            }
            if (!ds.empty()) {
                std::string d = ds.size() > 1 ? vh::fmt("burst of %zu:", ds.size()) : std::string("deliver");
                for (size_t i = 0; i < ds.size() && i < 6; ++i)
                    d += vh::fmt(" %s(%s%s)", g_signame[ds[i].si], ds[i].via == V_RAISE ? "raise" : ds[i].via == V_SIGQUEUE ? "sigqueue" :
                                 ds[i].via == V_LOOP_RAISE ? "raise on L" : "pthread_kill at the waiting thread of L",
                                 ds[i].via >= V_LOOP_RAISE ? std::to_string(ds[i].loop).c_str() : "");
                if (ds.size() > 6) d += " ...";
                if (held) {
                    std::vector<std::vector<MiniOp>> rel(C.loops.size());
                    std::vector<Ev *> cand;     // enabled events subscribed to one of the queued signals, the first one preferred
                    for (auto &e : C.evs) if (e->alive && e->enabled && !e->indeterminate && e->has(ds[0].si)) cand.push_back(e.get());
                    if (cand.empty() || r.chance(1, 3))
                        for (auto &e : C.evs) if (e->alive && e->enabled && !e->indeterminate) for (auto &x : ds) if (e->has(x.si)) { cand.push_back(e.get()); break; }
                    int nrel = cand.empty() ? 0 : (int)r.below(3);
                    std::set<Ev *> chosen;
                    std::string rd;
                    for (int i = 0; i < nrel; ++i) {
                        Ev *e = r.pick(cand);
                        if (chosen.count(e)) continue;
                        chosen.insert(e);
                        int k = r.chance(2, 3) ? 1 : 2;
                        rel[e->loop].push_back(MiniOp{k, e});
                        rd += vh::fmt(" %s e%d", k == 1 ? "disable" : "destroy", e->id);
                        C.sig.add(9000 + k * 100 + e->id);
                    }
                    say(C, "with every loop parked in a task, " + d + (rd.empty() ? std::string("; then the loops go on") : "; then, before the loops read their pipes:" + rd));
                    held_burst(C, ds, rel);
                } else {
                    // a persistent event's callback disables a sibling (same loop, same signal) in the middle of the dispatch, with at least
                    // one more event on that signal in that loop looking on
                    if (ds.size() == 1 && r.chance(3, 4)) {
                        int si = ds[0].si;
                        std::vector<int> loops3;
                        for (size_t l = 0; l < C.loops.size(); ++l) if (C.loops[l]->running && model_count_loop(C, si, (int)l) >= 3) loops3.push_back((int)l);
                        if (!loops3.empty()) {
                            int l = r.pick(loops3);
                            std::vector<Ev *> plain, all;
                            for (auto &e : C.evs) if (e->alive && e->enabled && e->loop == l && e->has(si)) {
                                all.push_back(e.get());
                                if (e->flavour == F_PERSIST && !e->indeterminate) plain.push_back(e.get());
                            }
                            if (plain.size() >= 2) {
                                size_t a = r.below(plain.size()), b = r.below(plain.size() - 1); if (b >= a) ++b;
                                Ev *D = plain[a], *V = plain[b];
                                D->victim.store(V);
                                vh::counter("deliveries_with_sibling_disabled_in_callback_3plus_events");
                                for (Ev *B : all) {
                                    if (B == D || B == V) continue;
                                    uintptr_t pd = (uintptr_t)D->obj, pv = (uintptr_t)V->obj, pb = (uintptr_t)B->obj;
                                    const char *o = pd < pv ? (pv < pb ? "disabler_victim_bystander" : pd < pb ? "disabler_bystander_victim" : "bystander_disabler_victim")
                                                            : (pd < pb ? "victim_disabler_bystander" : pv < pb ? "victim_bystander_disabler" : "bystander_victim_disabler");
                                    vh::counter(std::string("address_order_") + o);
                                }
                                d += vh::fmt(" [the callback of e%d disables e%d]", D->id, V->id);
                                C.sig.add(9500 + D->id * 20 + V->id);
                            }
                        }
                    }
                    say(C, d);
                    deliver(C, ds);
                }
            }
        }
        if (!C.failed) check_dispositions(C, "the last step");
    }
    finish_case(C, r.chance(1, 3), nloops, idx);
}

// ------------------------------------------------------------------------------------------------
// exhaustive: every sequence of `depth` operations over {enable,disable} x {e0,e1,e2} + {raise}
//   e0 persistent on L0, e1 one-shot on L0, e2 persistent on L1, all on SIGUSR1 with a sentinel sa_handler;
//   the two loops use (epoll,select) or (select,epoll) (one extra bit of the case index)
// ------------------------------------------------------------------------------------------------
void enum_case(uint64_t idx, vh::Rng &r) {
    reset_globals();
    Case C; C.rng = &r; g_case = &C;
    int depth = (int)vh::st().args.num("depth", 5);
    uint64_t nseq = 1; for (int i = 0; i < depth; ++i) nseq *= 7;
    uint64_t code = idx % nseq;
    int variant = (int)((idx / nseq) % 4);
    C.used_sigs.push_back(0);
    for (int si = 0; si < NSIG_USED; ++si) install_disp(C, si, si == 0 ? ((variant & 2) ? D_INFO : D_PLAIN) : D_IGN, 1, si == 0 ? 5 : 0);
    for (int i = 0; i < 2; ++i) {
        std::unique_ptr<LoopCtx> L(new LoopCtx);
        L->idx = i; L->engine = ((i ^ variant) & 1) ? "select" : "epoll";
        L->loop = Loop::New(L->engine);
        C.loops.push_back(std::move(L));
    }
    say(C, vh::fmt("enum variant %d code %llu: L0=%s L1=%s; e0 persist@L0, e1 oneshot@L0, e2 persist@L1, all on USR1", variant,
                   (unsigned long long)code, C.loops[0]->engine.c_str(), C.loops[1]->engine.c_str()));
    new_ev(C, 0, {0}, F_PERSIST, 0); new_ev(C, 0, {0}, F_ONESHOT, 0); new_ev(C, 1, {0}, F_PERSIST, 1);
    for (auto &L : C.loops) start_loop(*L);
    for (auto &e : C.evs) op_create(C, *e);
    check_dispositions(C, "create");
    C.sig.add(idx);
    for (int i = 0; i < depth && !C.failed; ++i) {
        int o = (int)(code % 7); code /= 7;
        if (o < 3) { say(C, vh::fmt("enable e%d", o)); op_compound(C, *C.loops[C.evs[o]->loop], {MiniOp{0, C.evs[o].get()}}); }
        else if (o < 6) { say(C, vh::fmt("disable e%d", o - 3)); op_compound(C, *C.loops[C.evs[o - 3]->loop], {MiniOp{1, C.evs[o - 3].get()}}); }
        else { say(C, "raise USR1"); deliver(C, {Delivery{0, V_RAISE, 0, 0}}); }
        if (!C.failed) check_dispositions(C, "the last step");
    }
    vh::counter("enum_sequences");
    bool two = C.multi_loop_same_signal_delivery;
    teardown(C, false);
    vh::note_case(C.sig.h, two && !C.failed);
    if (C.failed) continue_in_fresh_process(idx);
}

// ------------------------------------------------------------------------------------------------
// disposition matrix (exhaustive): every disposition kind x flag set x back-end x event mode x raising call.
// One loop, driven with runLoop(kOnce) on the only thread, so the process can fork: the delivery is first tried in a
// forked child (a delivery that kills the process is then an observation, not the end of the run) and then repeated in
// the parent, followed by disable() and the restoration check.
// ------------------------------------------------------------------------------------------------
struct MatrixObs { int callbacks = 0; int wrong_signo = 0; };

void pump(Loop *loop, int passes) {
    for (int i = 0; i < passes; ++i) {
        loop->runNext([] {}, "c04-pump");       // keeps the back-end wait from blocking
        loop->runLoop(Loop::Mode::kOnce);
    }
}

const uint64_t MATRIX_CASES = (uint64_t)D_KINDS_ALL * 5 * 2 * 2 * 2;

void matrix_case(uint64_t idx, vh::Rng &r) {
    reset_globals();
    Case C; C.rng = &r; g_case = &C;
    uint64_t c = idx % MATRIX_CASES;
    int kind = (int)(c % D_KINDS_ALL); c /= D_KINDS_ALL;
    int flags_sel = (int)(c % 5); c /= 5;
    std::string engine = (c % 2) ? "select" : "epoll"; c /= 2;
    bool oneshot = (c % 2) != 0; c /= 2;
    int via = (c % 2) ? V_SIGQUEUE : V_RAISE;
    const int si = 1;   // SIGUSR2
    C.used_sigs.push_back(si);
    for (int s = 0; s < NSIG_USED; ++s) if (s != si) install_disp(C, s, D_IGN, 0, 0);
    install_disp(C, si, kind, flags_sel, disp_is_sentinel(kind) ? 0x15 : 0);
    C.sig.add(idx);
    say(C, vh::fmt("matrix: old disposition of USR2 %s, loop %s, %s event, delivery by %s", disp_to_string(C.disp[si].snap).c_str(), engine.c_str(),
                   oneshot ? "one-shot" : "persistent", via == V_RAISE ? "raise" : "pthread_sigqueue"));
    vh::counter(std::string("matrix_old_disposition_") + dispname[kind]);

    auto fire = [&] {
        if (via == V_SIGQUEUE) { union sigval v; v.sival_ptr = (void *)4242; pthread_sigqueue(pthread_self(), g_signo[si], v); }
        else ::raise(g_signo[si]);
    };
    auto sentinel_ok = [&]() -> bool {
        uint32_t p = g_sent[si].plain_calls.load(), i = g_sent[si].info_calls.load();
        if (disp_is_plain(kind)) return p == 1 && i == 0;
        if (disp_is_info(kind)) return p == 0 && i == 1 && g_sent[si].last_si_signo.load() == g_signo[si] &&
                                       (via != V_SIGQUEUE || g_sent[si].last_si_value.load() == 4242);
        return p == 0 && i == 0;
    };
    // the whole scenario; bit 0 enable failed, 1 callback count, 2 sentinel, 3 isEnabled, 4 disable failed, 5 disposition not restored
    struct sigaction after;
    int callbacks = 0;
    auto scenario = [&]() -> int {
        int code = 0;
        Loop *loop = Loop::New(engine);
        SignalEvent *ev = loop->newSignalEvent("c04-matrix");
        MatrixObs obs;
        ev->initialize(g_signo[si], oneshot ? Event::Mode::kOneshot : Event::Mode::kPersist);
        ev->setCallback([&obs, si](int signo) { if (signo == g_signo[si]) ++obs.callbacks; else ++obs.wrong_signo; });
        if (!ev->enable()) code |= 1;
        fire();
        pump(loop, 3);
        callbacks = obs.callbacks;
        if (obs.callbacks != 1 || obs.wrong_signo) code |= 2;
        if (!sentinel_ok()) code |= 4;
        if (ev->isEnabled() != !oneshot) code |= 8;
        if (!ev->disable()) code |= 16;
        ::sigaction(g_signo[si], nullptr, &after);
        if (!same_disp(after, C.disp[si].snap)) code |= 32;
        delete ev;
        pump(loop, 2);
        delete loop;
        return code;
    };

    // 1. in a forked child (this process is single-threaded, so fork is safe): a delivery that kills the process is an observation
    fflush(stdout); fflush(stderr);
    pid_t pid = fork();
    if (pid == 0) {
        int devnull = open("/dev/null", O_WRONLY);
        if (devnull >= 0) { dup2(devnull, 1); dup2(devnull, 2); }   // a sanitizer report of the child must not be mistaken for the parent's
        _exit(64 + scenario());
    }
    int status = 0;
    if (pid < 0 || waitpid(pid, &status, 0) != pid) { fprintf(stderr, "VH-FATAL: fork\n"); abort(); }
    vh::counter("matrix_scenarios_in_forked_child");
    if (WIFSIGNALED(status) || (WIFEXITED(status) && (WEXITSTATUS(status) < 64 || WEXITSTATUS(status) > 127))) {
        fail(C, std::string("deliver/process-killed-by-the-delivery/old-disposition-") + dispname[kind],
             vh::fmt("with an enabled %s signal event on USR2 (%s loop) and the pre-existing disposition %s, one %s(SIGUSR2) terminated the (forked) "
                     "process: %s %d", oneshot ? "one-shot" : "persistent", engine.c_str(), disp_to_string(C.disp[si].snap).c_str(),
                     via == V_RAISE ? "raise" : "pthread_sigqueue", WIFSIGNALED(status) ? "killed by signal" : "sanitizer exit status",
                     WIFSIGNALED(status) ? WTERMSIG(status) : WEXITSTATUS(status)));
    }
    // 2. the same scenario in this process, judged in detail
    if (!C.failed) {
        int code = scenario();
        vh::counter("deliveries");
        if (oneshot) vh::counter("oneshot_fired");
        vh::counter("last_unsubscribe_restore_checked");
        vh::counter(std::string("restore_checked_old_") + dispname[kind]);
        if (code & 1) fail(C, "api/enable-returned-false", "matrix: enable() returned false");
        if (code & 2) fail(C, callbacks < 1 ? "deliver/callback-missing" : "deliver/callback-duplicated", vh::fmt("matrix: %d callbacks for one delivery", callbacks));
        if (code & 4) fail(C, "sentinel/previous-handler-not-invoked/while-subscribed",
                           vh::fmt("matrix: sentinel sa_handler ran %u time(s), sa_sigaction %u time(s), si_value %ld", g_sent[si].plain_calls.load(),
                                   g_sent[si].info_calls.load(), g_sent[si].last_si_value.load()));
        if (code & 8) fail(C, "api/isEnabled-mismatch", "matrix: isEnabled() after the delivery");
        if (code & 16) fail(C, "api/disable-returned-false", "matrix");
        if (code & 32) fail(C, "disposition/not-restored/after-last-unsubscribe",
                            vh::fmt("matrix: after disable() sigaction() reports %s; before the subscription it was %s", disp_to_string(after).c_str(),
                                    disp_to_string(C.disp[si].snap).c_str()));
    }
    for (int s = 0; s < NSIG_USED; ++s) { struct sigaction sa; memset(&sa, 0, sizeof sa); sigemptyset(&sa.sa_mask); sa.sa_handler = SIG_IGN; ::sigaction(g_signo[s], &sa, nullptr); }
    vh::note_case(C.sig.h, !C.failed);
    if (vh::want_sample(2)) vh::sample(vh::jstr(vh::st().case_desc), 2);
    if (C.failed) continue_in_fresh_process(idx);
}

}  // namespace

int main(int argc, char **argv) {
    g_signo[0] = SIGUSR1; g_signo[1] = SIGUSR2; g_signo[2] = SIGHUP;
    g_signo[3] = SIGRTMIN + 3; g_signo[4] = SIGRTMIN + 4; g_signo[5] = SIGRTMIN + 5;
    g_argc = argc; g_argv = argv;
    return vh::run(argc, argv, [](uint64_t idx, vh::Rng &r) {
        if (vh::st().args.mode == "enum") enum_case(idx, r);
        else if (vh::st().args.mode == "matrix") matrix_case(idx, r);
        else random_case(idx, r);
    });
}
