// C07: util::Buffer behaves as an unbounded FIFO byte queue. Lock-step against std::string.
// modes: random (seeded op sequences over up to 4 live buffers), exhaustive (mixed-radix
// enumeration of all op sequences of fixed depth over a small alphabet, small capacities).
#include "common/vh.hpp"
#include <tbox/util/buffer.h>
#include <memory>
#include <string>
#include <vector>

using tbox::util::Buffer;

namespace {

struct Slot {
    std::unique_ptr<Buffer> b;
    std::string m;          // model: the readable bytes
    size_t roff = 0;        // shadow read offset (only used for branch counters)
    bool live() const { return (bool)b; }
};

uint64_t g_next_byte = 1;
std::string fresh(size_t n) {
    std::string s(n, '\0');
    for (auto &c : s) { c = (char)(g_next_byte * 131 + (g_next_byte >> 8) * 7); ++g_next_byte; }
    return s;
}

struct World {
    std::vector<Slot> s;
    vh::Sig sig;
    bool saw_compact = false, saw_realloc_nz = false, saw_realloc_z = false, saw_enough_nz = false;
    std::string script;
    bool record = false;

    void log(const std::string &x) { if (record) { script += x; script += ';'; } }

    void check_all(const char *after) {
        for (size_t i = 0; i < s.size(); ++i) {
            if (!s[i].live()) continue;
            Buffer &b = *s[i].b;
            if (b.readableSize() != s[i].m.size()) {
                vh::viol("model/size-mismatch", vh::fmt("after %s: buffer %zu readableSize=%zu model=%zu", after, i, b.readableSize(), s[i].m.size()));
                s[i].m.assign((const char *)b.readableBegin(), b.readableSize());   // resync to keep going
                continue;
            }
            if (!s[i].m.empty() && memcmp(b.readableBegin(), s[i].m.data(), s[i].m.size()) != 0) {
                size_t k = 0;
                while (k < s[i].m.size() && b.readableBegin()[k] == (uint8_t)s[i].m[k]) ++k;
                vh::viol("model/content-mismatch", vh::fmt("after %s: buffer %zu differs at offset %zu of %zu", after, i, k, s[i].m.size()));
                s[i].m.assign((const char *)b.readableBegin(), b.readableSize());
            }
        }
    }

    // classify which branch ensureWritableSize took (for counters only)
    struct Pre { const uint8_t *rb, *end; size_t ws; bool has; };
    Pre pre(Slot &x) {
        Buffer &b = *x.b;
        Pre p; p.rb = b.readableBegin(); p.ws = b.writableSize();
        p.has = b.writableBegin() != nullptr;
        p.end = p.has ? b.writableBegin() + b.writableSize() : nullptr;
        return p;
    }
    void post(Slot &x, const Pre &p, size_t need) {
        Buffer &b = *x.b;
        if (need == 0) return;
        if (p.ws >= need) {
            vh::counter(x.roff ? "branch_enough_nonzero_roff" : "branch_enough_zero_roff");
            if (x.roff) saw_enough_nz = true;
            return;
        }
        const uint8_t *end = b.writableBegin() ? b.writableBegin() + b.writableSize() : nullptr;
        if (p.has && end == p.end && b.readableBegin() != p.rb) {
            vh::counter("branch_compact");
            if (b.writableSize() == need) vh::counter("branch_compact_exact_fit");
            saw_compact = true;
            x.roff = 0;
        } else {
            vh::counter(x.roff ? "branch_realloc_nonzero_roff" : "branch_realloc_zero_roff");
            if (x.roff) saw_realloc_nz = true; else saw_realloc_z = true;
        }
    }
    void consumed(Slot &x, size_t n) {
        x.roff += n;
        if (x.m.empty()) x.roff = 0;
    }

    // ---- operations -------------------------------------------------------------
    void op_append(size_t i, size_t n) {
        Slot &x = s[i];
        std::string d = fresh(n);
        // exactly sized heap copy of the input so an over-read is an ASan report
        std::unique_ptr<char[]> in(new char[n ? n : 1]);
        memcpy(in.get(), d.data(), n);
        Pre p = pre(x);
        size_t r = x.b->append(in.get(), n);
        post(x, p, n);
        VH_CHECK(r == n, "api/append-short", "append(%zu) returned %zu", n, r);
        x.m += d.substr(0, r);
        sig.add(1); sig.add(n);
        log(vh::fmt("b%zu.append(%zu)", i, n));
    }
    void op_reserve_write(size_t i, size_t n, size_t commit) {
        Slot &x = s[i];
        Pre p = pre(x);
        bool ok = x.b->ensureWritableSize(n);
        post(x, p, n);
        VH_CHECK(ok, "api/ensure-failed", "ensureWritableSize(%zu) returned false", n);
        size_t ws = x.b->writableSize();
        VH_CHECK(ws >= n, "api/ensure-too-small", "ensureWritableSize(%zu) left writableSize()=%zu", n, ws);
        uint8_t *w = x.b->writableBegin();
        std::string d = fresh(ws);
        if (ws > 0 && w != nullptr) memcpy(w, d.data(), ws);   // write the whole promised region
        else if (ws > 0) vh::viol("api/null-writable", vh::fmt("writableSize()=%zu but writableBegin() is null", ws));
        x.b->hasWritten(commit);
        size_t eff = commit > ws ? ws : commit;
        x.m += d.substr(0, eff);
        sig.add(2); sig.add(n); sig.add(commit);
        log(vh::fmt("b%zu.reserve(%zu).commit(%zu)", i, n, commit));
    }
    void op_fetch(size_t i, size_t n) {
        Slot &x = s[i];
        std::unique_ptr<char[]> out(new char[n ? n : 1]);
        size_t r = x.b->fetch(out.get(), n);
        size_t exp = n < x.m.size() ? n : x.m.size();
        VH_CHECK(r == exp, "api/fetch-size", "fetch(%zu) returned %zu, model has %zu", n, r, x.m.size());
        if (r <= x.m.size() && r <= n && memcmp(out.get(), x.m.data(), r) != 0)
            vh::viol("model/fetch-content", vh::fmt("fetch(%zu) returned bytes that differ from the queue head", n));
        x.m.erase(0, r < x.m.size() ? r : x.m.size());
        consumed(x, r);
        sig.add(3); sig.add(n);
        log(vh::fmt("b%zu.fetch(%zu)", i, n));
    }
    void op_has_read(size_t i, size_t n) {
        Slot &x = s[i];
        x.b->hasRead(n);
        if (n >= x.m.size()) x.m.clear(); else x.m.erase(0, n);   // "more than readable" consumes all (documented by the code)
        consumed(x, n);
        sig.add(4); sig.add(n);
        log(vh::fmt("b%zu.hasRead(%zu)", i, n));
    }
    void op_read_all(size_t i) {
        s[i].b->hasReadAll(); s[i].m.clear(); s[i].roff = 0;
        sig.add(5); log(vh::fmt("b%zu.hasReadAll()", i));
    }
    void op_shrink(size_t i) {
        s[i].b->shrink(); s[i].roff = 0;
        sig.add(6); log(vh::fmt("b%zu.shrink()", i));
    }
    void op_reset(size_t i) {
        s[i].b->reset(); s[i].m.clear(); s[i].roff = 0;
        VH_CHECK(s[i].b->readableSize() == 0, "api/reset-not-empty", "reset left %zu bytes", s[i].b->readableSize());
        sig.add(7); log(vh::fmt("b%zu.reset()", i));
    }
    void op_copy_assign(size_t d, size_t src) {
        *s[d].b = *s[src].b;
        if (d != src) { s[d].m = s[src].m; s[d].roff = 0; }
        sig.add(8); sig.add(d == src); log(vh::fmt("b%zu=b%zu", d, src));
    }
    void op_move_assign(size_t d, size_t src) {
        Buffer &dst = *s[d].b;
        dst = std::move(*s[src].b);
        if (d != src) {
            s[d].m = s[src].m; s[d].roff = s[src].roff;
            s[src].m.clear(); s[src].roff = 0;
            VH_CHECK(s[src].b->readableSize() == 0, "api/moved-from-not-empty", "moved-from buffer has %zu bytes", s[src].b->readableSize());
        }
        sig.add(9); sig.add(d == src); log(vh::fmt("b%zu=move(b%zu)", d, src));
    }
    void op_swap(size_t a, size_t b) {
        s[a].b->swap(*s[b].b);
        if (a != b) { std::swap(s[a].m, s[b].m); std::swap(s[a].roff, s[b].roff); }
        sig.add(10); sig.add(a == b); log(vh::fmt("b%zu.swap(b%zu)", a, b));
    }
    void op_copy_construct(size_t d, size_t src) {
        s[d].b.reset(new Buffer(*s[src].b)); s[d].m = s[src].m; s[d].roff = 0;
        sig.add(11); log(vh::fmt("b%zu=new Buffer(b%zu)", d, src));
    }
    void op_move_construct(size_t d, size_t src) {
        s[d].b.reset(new Buffer(std::move(*s[src].b)));
        s[d].m = s[src].m; s[d].roff = s[src].roff;
        s[src].m.clear(); s[src].roff = 0;
        VH_CHECK(s[src].b->readableSize() == 0, "api/moved-from-not-empty", "moved-from (ctor) buffer has %zu bytes", s[src].b->readableSize());
        sig.add(12); log(vh::fmt("b%zu=new Buffer(move(b%zu))", d, src));
    }
    void op_new(size_t d, size_t cap) {
        s[d].b.reset(new Buffer(cap)); s[d].m.clear(); s[d].roff = 0;
        sig.add(13); sig.add(cap); log(vh::fmt("b%zu=new Buffer(%zu)", d, cap));
    }
    void op_destroy(size_t d) {
        s[d].b.reset(); s[d].m.clear();
        sig.add(14); log(vh::fmt("delete b%zu", d));
    }
};

size_t interesting_size(vh::Rng &r, Buffer &b, size_t roff) {
    size_t fr = b.writableSize();
    size_t cap = fr + b.readableSize() + roff;
    switch (r.below(12)) {
        case 0: return 0;
        case 1: return 1;
        case 2: return fr ? fr - 1 : 0;
        case 3: return fr;
        case 4: return fr + 1;
        case 5: return fr + roff;            // exact compaction fit
        case 6: return fr + roff + 1;        // one more: must reallocate
        case 7: return cap < 3000 ? cap * 4 + 1 : cap + 2;
        case 8: return r.below(8);
        case 9: return r.below(64);
        case 10: return r.below(600);
        default: return r.below(cap + 2);
    }
}

void random_case(uint64_t idx, vh::Rng &r) {
    World w;
    w.record = vh::want_sample() || true;
    static const size_t caps[] = {0, 1, 2, 7, 256, 4096};
    size_t nslots = 1 + r.below(4);
    w.s.resize(nslots);
    for (size_t i = 0; i < nslots; ++i) w.op_new(i, r.pick(caps));
    int nops = 20 + (int)r.below(60);
    for (int k = 0; k < nops; ++k) {
        size_t i = r.below(nslots);
        if (!w.s[i].live()) { w.op_new(i, r.pick(caps)); continue; }
        Buffer &b = *w.s[i].b;
        size_t j = r.below(nslots);
        if (!w.s[j].live()) j = i;
        const char *name = "op";
        switch (r.below(22)) {
            case 0: case 1: case 2: case 3: case 4:
                w.op_append(i, interesting_size(r, b, w.s[i].roff)); name = "append"; break;
            case 5: case 6: case 7: {
                size_t n = interesting_size(r, b, w.s[i].roff);
                size_t c;
                switch (r.below(5)) { case 0: c = 0; break; case 1: c = n; break; case 2: c = n / 2; break;
                                      case 3: c = n + 1 + r.below(3); break; default: c = r.below(n + 1); }
                w.op_reserve_write(i, n, c); name = "reserve"; break;
            }
            case 8: case 9: {
                size_t rs = b.readableSize();
                size_t opts[] = {0, 1, rs / 2, rs ? rs - 1 : 0, rs, rs + 1, (size_t)r.below(rs + 3)};
                w.op_fetch(i, r.pick(opts)); name = "fetch"; break;
            }
            case 10: case 11: case 12: {
                size_t rs = b.readableSize();
                size_t opts[] = {0, 1, rs / 2, rs ? rs - 1 : 0, rs, rs + 1, rs + 1000, (size_t)r.below(rs + 3)};
                w.op_has_read(i, r.pick(opts)); name = "hasRead"; break;
            }
            case 13: w.op_read_all(i); name = "hasReadAll"; break;
            case 14: w.op_shrink(i); name = "shrink"; break;
            case 15: w.op_reset(i); name = "reset"; break;
            case 16: w.op_copy_assign(i, j); name = "copy="; break;
            case 17: w.op_move_assign(i, j); name = "move="; break;
            case 18: w.op_swap(i, j); name = "swap"; break;
            case 19: w.op_copy_construct(i == j ? (i + 1) % nslots : i, j); name = "copy-ctor"; break;
            case 20: if (i != j) { w.op_move_construct(i, j); name = "move-ctor"; } break;
            case 21: if (r.chance(1, 3)) { w.op_destroy(i); name = "destroy"; } break;
        }
        vh::st().case_desc = w.script;
        w.check_all(name);
    }
    vh::counter("ops", nops);
    bool nontrivial = w.saw_compact && (w.saw_realloc_nz || w.saw_enough_nz);
    vh::note_case(w.sig.h, nontrivial);
    if (nontrivial && vh::want_sample())
        vh::sample("{\"script\":" + vh::jstr(w.script.substr(0, 700)) + "}");
}

// ---- exhaustive: single buffer + one scratch copy, fixed alphabet, fixed depth -------------
struct XOp { int kind; size_t a, b; };
std::vector<XOp> alphabet() {
    std::vector<XOp> v;
    for (size_t n : {0, 1, 2, 3, 5, 6}) v.push_back({0, n, 0});          // append n
    for (size_t n : {1, 2, 4, 6}) { v.push_back({1, n, n}); v.push_back({1, n, n > 1 ? n - 1 : 0}); }  // reserve n commit c
    for (size_t n : {1, 2, 4}) v.push_back({2, n, 0});                   // fetch n
    for (size_t n : {0, 1, 2, 3, 7}) v.push_back({3, n, 0});             // hasRead n
    v.push_back({4, 0, 0});   // hasReadAll
    v.push_back({5, 0, 0});   // shrink
    v.push_back({6, 0, 0});   // reset
    v.push_back({7, 0, 0});   // b1 = b0 (copy), then continue on b0; b1 must stay intact
    v.push_back({8, 0, 0});   // b0 = move(b1)
    v.push_back({9, 0, 0});   // swap(b0,b1)
    return v;
}

void exhaustive_case(uint64_t idx, vh::Rng &, int depth) {
    static const std::vector<XOp> A = alphabet();
    static const size_t caps[] = {0, 1, 2, 3, 4};
    uint64_t x = idx;
    size_t cap = caps[x % 5]; x /= 5;
    World w;
    w.s.resize(2);
    w.op_new(0, cap);
    w.op_new(1, 0);
    for (int d = 0; d < depth; ++d) {
        const XOp &o = A[x % A.size()]; x /= A.size();
        switch (o.kind) {
            case 0: w.op_append(0, o.a); break;
            case 1: w.op_reserve_write(0, o.a, o.b); break;
            case 2: w.op_fetch(0, o.a); break;
            case 3: w.op_has_read(0, o.a); break;
            case 4: w.op_read_all(0); break;
            case 5: w.op_shrink(0); break;
            case 6: w.op_reset(0); break;
            case 7: w.op_copy_assign(1, 0); break;
            case 8: w.op_move_assign(0, 1); break;
            case 9: w.op_swap(0, 1); break;
        }
        w.check_all("xop");
    }
    vh::counter("ops", depth);
    vh::note_case(w.sig.h, w.saw_compact || w.saw_realloc_nz);
}

}  // namespace

int main(int argc, char **argv) {
    vh::parse_args(argc, argv);
    const std::string mode = vh::st().args.mode;
    if (mode == "xcount") {   // print the size of the exhaustive space for a depth
        long depth = vh::st().args.num("depth", 4);
        uint64_t n = 5;
        for (long i = 0; i < depth; ++i) n *= alphabet().size();
        printf("%llu\n", (unsigned long long)n);
        return 0;
    }
    long depth = vh::st().args.num("depth", 4);
    return vh::run(argc, argv, [&](uint64_t idx, vh::Rng &r) {
        if (mode == "exhaustive") exhaustive_case(idx, r, (int)depth);
        else random_case(idx, r);
    });
}
