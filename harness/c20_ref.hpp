// C20 reference model: brute-force "earliest matching instant strictly after now".
// Written from the property text and the public headers only (weekly_alarm.h, oneshot_alarm.h,
// workday_alarm.h, workday_calendar.h, cron_alarm.h); shares no code with /repo.
//   * day index d = floor(local_seconds / 86400); 1970-01-01 (d = 0) is a Thursday; weekday 0 = Sunday.
//   * weekly / one-shot / workday alarms: the instant is d*86400 + seconds_of_day on an admissible day.
//   * cron: six fields (second minute hour day-of-month month day-of-week), each a set; an instant matches when
//     every field of its civil UTC-like breakdown (of the *local* second count) is in its set.
// The search is linear over days (then over hours/minutes/seconds of the first admissible day), so it is obviously
// the earliest; it is slow but independent of the modular arithmetic used by the implementation.
#ifndef VERIF_C20_REF_HPP
#define VERIF_C20_REF_HPP

#include <cstdint>
#include <ctime>
#include <map>
#include <string>

namespace c20 {

static const int64_t kDay = 86400;
static const int64_t kNone = -1;

struct Civil { int y, m, d; };   // m 1..12, d 1..31

//! proleptic Gregorian date of day index z (days since 1970-01-01); days-from-civil inverse by plain counting rules
inline bool is_leap(int y) { return (y % 4 == 0 && y % 100 != 0) || y % 400 == 0; }
inline int days_in_month(int y, int m) {
    static const int dm[12] = {31, 28, 31, 30, 31, 30, 31, 31, 30, 31, 30, 31};
    return (m == 2 && is_leap(y)) ? 29 : dm[m - 1];
}
//! table of the day index of Jan 1st for 1970..2110 built by summation (no closed formula to get wrong)
struct YearTable {
    int64_t jan1[142];
    YearTable() { int64_t d = 0; for (int y = 1970; y < 1970 + 142; ++y) { jan1[y - 1970] = d; d += is_leap(y) ? 366 : 365; } }
};
inline const YearTable &year_table() { static YearTable t; return t; }

inline Civil civil_from_days(int64_t z) {
    const YearTable &t = year_table();
    int lo = 0, hi = 141;
    while (lo < hi) { int mid = (lo + hi + 1) / 2; if (t.jan1[mid] <= z) lo = mid; else hi = mid - 1; }
    int y = 1970 + lo;
    int64_t rem = z - t.jan1[lo];
    int m = 1;
    while (rem >= days_in_month(y, m)) { rem -= days_in_month(y, m); ++m; }
    Civil c = {y, m, (int)rem + 1};
    return c;
}
inline int weekday_of_day(int64_t day) { return (int)((day + 4) % 7); }   // 0 = Sunday

//! cross-check of the two helpers against libc (gmtime_r) on a spread of days; returns false on disagreement
inline bool self_test() {
    for (int64_t d = 0; d < 49710; d += (d < 800 ? 1 : 37)) {
        time_t t = (time_t)(d * kDay + 12345);
        struct tm tmv;
        if (!gmtime_r(&t, &tmv)) return false;
        Civil c = civil_from_days(d);
        if (c.y != tmv.tm_year + 1900 || c.m != tmv.tm_mon + 1 || c.d != tmv.tm_mday) return false;
        if (weekday_of_day(d) != tmv.tm_wday) return false;
    }
    return true;
}

// ---- weekly / one-shot / workday ---------------------------------------------------------------------------------

//! earliest d*86400+sod > now with d in [today, today+max_days] and ok(d); kNone if there is none in that window
template <typename DayOk>
inline int64_t next_daily(int64_t now, int sod, int max_days, DayOk ok) {
    int64_t today = now / kDay;
    for (int64_t d = today; d <= today + max_days; ++d) {
        int64_t t = d * kDay + sod;
        if (t > now && ok(d)) return t;
    }
    return kNone;
}

struct WeekMaskOk { unsigned mask; bool operator()(int64_t d) const { return (mask >> weekday_of_day(d)) & 1u; } };
struct AnyDayOk { bool operator()(int64_t) const { return true; } };

inline int64_t next_weekly(int64_t now, int sod, unsigned mask7) { WeekMaskOk ok = {mask7}; return next_daily(now, sod, 7, ok); }
inline int64_t next_oneshot(int64_t now, int sod) { return next_daily(now, sod, 1, AnyDayOk()); }

//! the calendar as documented in workday_calendar.h: special days override the weekly default
struct Calendar {
    unsigned week_mask = 0x3e;            // Monday..Friday (bit 0 = Sunday)
    std::map<int, bool> special;          // day index -> is workday
    bool is_workday(int64_t d) const {
        std::map<int, bool>::const_iterator it = special.find((int)d);
        if (it != special.end()) return it->second;
        return (week_mask >> weekday_of_day(d)) & 1u;
    }
};
struct WorkdayOk { const Calendar *cal; bool want; bool operator()(int64_t d) const { return cal->is_workday(d) == want; } };
//! scans `max_days` ahead (the caller decides what to do with answers beyond the implementation's documented horizon)
inline int64_t next_workday(int64_t now, int sod, const Calendar &cal, bool want_workday, int max_days) {
    WorkdayOk ok = {&cal, want_workday};
    return next_daily(now, sod, max_days, ok);
}

// ---- cron --------------------------------------------------------------------------------------------------------

struct CronSpec {
    uint64_t sec = 0, min = 0;     // bits 0..59
    uint32_t hour = 0;             // bits 0..23
    uint32_t dom = 0;              // bits 1..31
    uint32_t mon = 0;              // bits 1..12
    uint32_t dow = 0;              // bits 0..6, 0 = Sunday
    std::string text;              // the expression handed to the implementation
};

inline bool cron_day_matches(const CronSpec &c, int64_t day) {
    Civil cv = civil_from_days(day);
    return ((c.mon >> cv.m) & 1u) && ((c.dom >> cv.d) & 1u) && ((c.dow >> weekday_of_day(day)) & 1u);
}
//! earliest second-of-day >= lo that matches the time fields, or -1
inline int cron_first_tod(const CronSpec &c, int lo) {
    for (int h = 0; h < 24; ++h) {
        if (!((c.hour >> h) & 1u) || h * 3600 + 3599 < lo) continue;
        for (int m = 0; m < 60; ++m) {
            if (!((c.min >> m) & 1ull) || h * 3600 + m * 60 + 59 < lo) continue;
            for (int s = 0; s < 60; ++s) {
                if (!((c.sec >> s) & 1ull)) continue;
                int t = h * 3600 + m * 60 + s;
                if (t >= lo) return t;
            }
        }
    }
    return -1;
}
inline bool cron_matches(const CronSpec &c, int64_t t) {
    int tod = (int)(t % kDay);
    return cron_day_matches(c, t / kDay) && ((c.hour >> (tod / 3600)) & 1u) && ((c.min >> (tod / 60 % 60)) & 1ull) &&
           ((c.sec >> (tod % 60)) & 1ull);
}
inline int64_t next_cron(const CronSpec &c, int64_t now, int max_days) {
    int64_t today = now / kDay;
    for (int64_t d = today; d <= today + max_days; ++d) {
        if (d >= year_table().jan1[141]) break;   // outside the year table (2111); callers never need that far
        if (!cron_day_matches(c, d)) continue;
        int lo = (d == today) ? (int)(now % kDay) + 1 : 0;
        if (lo >= kDay) continue;
        int tod = cron_first_tod(c, lo);
        if (tod >= 0) return d * kDay + tod;
    }
    return kNone;
}

}  // namespace c20

#endif
