// C01: event::Loop deferred tasks — exactly once, on the loop thread, in per-(thread,entry) submission order,
// never dropped at exit / re-run / destruction, cancel honoured, no data race, no lost wake-up.
// History recorded at the API boundary only (submission call/return ticks, execution tick+tid inside the
// callable, cancel results, run/destroy windows); checked after the loop object has been destroyed.
#include "common/vh.hpp"
#include "common/conc.hpp"
#include <tbox/event/loop.h>
#include <tbox/event/fd_event.h>
#include <unistd.h>
#include <memory>
#include <vector>
#include <atomic>
#include <thread>
#include <algorithm>
#include <fstream>

using namespace tbox;
using event::Loop;

VC_DEFINE_POINT()

namespace {

enum Entry { E_INLOOP = 0, E_NEXT = 1, E_RUN = 2 };
const char *ename[] = {"runInLoop", "runNext", "run"};

struct Task {
    int uid = 0;
    int owner = 0;              // >=0 submitter thread index, -1 nested (loop thread), -2 orchestrator pre-run / gap
    int entry = E_INLOOP;
    int parent = -1;
    std::vector<int> children;  // submitted when this task executes (in this order)
    std::vector<int> cancels;   // uids this task tries to cancel when it executes (after submitting children)
    int pause_us = 0;           // submitter pause before submitting this task
    int chain_idx = -1;         // >= 0: link number in the deep chain (see gen)
    // recorded
    std::atomic<uint64_t> id{0};
    std::atomic<uint64_t> call{0}, ret{0};
    std::atomic<long> sub_tid{0};
    std::atomic<uint32_t> exec_count{0};
    std::atomic<uint64_t> exec_tick{0};
    std::atomic<long> exec_tid{0};
    std::atomic<int> cancel_true{0};
    std::atomic<uint64_t> cancel_tick{0};
    std::atomic<int> submitted{0};
};

struct Window { uint64_t begin = 0, end = 0; long tid = 0; uint64_t exit_req = 0; };

struct Scenario {
    std::string engine;
    std::vector<std::unique_ptr<Task>> tasks;
    std::vector<std::vector<int>> sub_scripts;   // per submitter thread: uids in order
    std::vector<int> prerun, gap;                // orchestrator submissions before the first run / in the stopped gap
    int nruns = 1;
    std::vector<int> exit_after;                 // per run: exit when this many executions happened (0 = quiesce mode)
    bool destroy_on_other_thread = false;
    int runner_delay_us = 0;
    int deep_chain = 0;                          // length of the deep chain, 0 = none
    bool fd0_free = false;                       // descriptor 0 is free while the loop runs: its wake-up eventfd gets number 0
    // runtime
    Loop *loop = nullptr;
    std::atomic<uint64_t> executed{0};
    std::atomic<int> cur_run{-1};
    std::atomic<uint64_t> exit_at{0};
    std::atomic<uint64_t> exit_req_tick{0};
    std::vector<Window> runs;
    Window destroy;
    std::atomic<int> submitters_done{0};
    std::atomic<uint64_t> submitted_total{0};
    std::atomic<uint64_t> cancels_true{0}, cancels_false{0}, cancel_in_batch{0}, self_cancels{0};
    std::string desc;
};

void submit(Scenario &S, Task &t);

void body(Scenario *Sp, Task *t) {
    Scenario &S = *Sp;
    t->exec_tid.store(vc::gettid_(), std::memory_order_relaxed);
    t->exec_tick.store(vc::tick(), std::memory_order_relaxed);
    t->exec_count.fetch_add(1, std::memory_order_relaxed);
    for (int c : t->children) submit(S, *S.tasks[c]);
    for (int c : t->cancels) {
        Task &x = *S.tasks[c];
        uint64_t id = x.id.load(std::memory_order_acquire);
        if (id == 0) continue;
        uint64_t ct = vc::tick();
        bool ok = S.loop->cancel(id);
        if (c == t->uid) S.self_cancels.fetch_add(1);
        if (ok) { x.cancel_true.fetch_add(1); x.cancel_tick.store(ct); S.cancels_true.fetch_add(1);
                  if (x.parent == t->parent && x.entry != E_INLOOP) S.cancel_in_batch.fetch_add(1); }
        else S.cancels_false.fetch_add(1);
    }
    uint64_t n = S.executed.fetch_add(1) + 1;
    uint64_t ea = S.exit_at.load();
    if (ea && n == ea && S.cur_run.load() >= 0) {
        S.exit_req_tick.store(vc::tick());
        S.loop->exitLoop();
    }
}

void submit(Scenario &S, Task &t) {
    Task *tp = &t;
    Scenario *Sp = &S;
    t.sub_tid.store(vc::gettid_(), std::memory_order_relaxed);
    t.call.store(vc::tick(), std::memory_order_relaxed);
    Loop::RunId id = 0;
    auto f = [Sp, tp] { body(Sp, tp); };
    switch (t.entry) {
        case E_INLOOP: id = S.loop->runInLoop(f, "c01"); break;
        case E_NEXT: id = S.loop->runNext(f, "c01"); break;
        default: id = S.loop->run(f, "c01"); break;
    }
    t.id.store(id, std::memory_order_release);
    t.ret.store(vc::tick(), std::memory_order_relaxed);
    t.submitted.store(1, std::memory_order_release);
    S.submitted_total.fetch_add(1);
}

int new_task(Scenario &S, int owner, int entry, int parent) {
    std::unique_ptr<Task> t(new Task);
    t->uid = (int)S.tasks.size(); t->owner = owner; t->entry = entry; t->parent = parent;
    S.tasks.push_back(std::move(t));
    return (int)S.tasks.size() - 1;
}

void add_children(vh::Rng &r, Scenario &S, int uid, int depth) {
    if (depth >= 3) return;
    int n = r.chance(1, 3) ? 1 + (int)r.below(3) : 0;
    for (int i = 0; i < n; ++i) {
        int e = (int)r.below(3);
        int c = new_task(S, -1, e, uid);
        S.tasks[uid]->children.push_back(c);
        add_children(r, S, c, depth + 1);
    }
    // cancels: one of my own children (still queued), or a later sibling (same batch when both are runNext/run)
    if (!S.tasks[uid]->children.empty() && r.chance(1, 3))
        S.tasks[uid]->cancels.push_back(r.pick(S.tasks[uid]->children));
    // a task cancels ITSELF while it is running (it has left the batch: cancel must answer false and nothing else may change)
    if (r.chance(1, 10)) S.tasks[uid]->cancels.push_back(uid);
    // a child cancels a later sibling (same batch when both went through runNext/run)
    auto &ch = S.tasks[uid]->children;
    for (size_t i = 0; i + 1 < ch.size(); ++i)
        if (r.chance(1, 3)) S.tasks[ch[i]]->cancels.push_back(ch[i + 1 + r.below(ch.size() - i - 1)]);
}

void gen(vh::Rng &r, Scenario &S, vh::Sig &sig) {
    int nsub = 1 + (int)r.below(8);
    S.sub_scripts.resize(nsub);
    for (int s = 0; s < nsub; ++s) {
        int n = 1 + (int)r.below(r.chance(1, 6) ? 200 : 25);
        for (int i = 0; i < n; ++i) {
            int u = new_task(S, s, E_INLOOP, -1);
            static const int pz[] = {0, 0, 0, 1, 5, 20, 100, 400};
            S.tasks[u]->pause_us = r.pick(pz);
            S.sub_scripts[s].push_back(u);
            add_children(r, S, u, 0);
            // sometimes a loop-thread task cancels a submitter's later task (id published through an atomic)
        }
    }
    for (int s = 0; s < nsub; ++s)
        for (size_t i = 0; i + 1 < S.sub_scripts[s].size(); ++i)
            if (r.chance(1, 12)) S.tasks[S.sub_scripts[s][i]]->cancels.push_back(S.sub_scripts[s][i + 1 + r.below(S.sub_scripts[s].size() - i - 1)]);
    int npre = r.chance(1, 2) ? (int)r.below(5) : 0;
    for (int i = 0; i < npre; ++i) { int u = new_task(S, -2, 1 + (int)r.below(2), -1); S.prerun.push_back(u); add_children(r, S, u, 1); }
    // Deep chain: the shutdown drain is bounded to 100 generations (common_loop_run.cpp); what is left stays queued
    // for the next run or for the destructor's own drain (another 100). A chain of 130..190 links, each submitting the
    // next, that is still unrolling when the first run exits crosses that bound once and must still run every link
    // exactly once (longer chains could legitimately lose links at destruction and are not generated).
    if (r.chance(1, 10)) {
        S.deep_chain = 130 + (int)r.below(61);
        int cur = new_task(S, -2, 1 + (int)r.below(2), -1);
        S.prerun.push_back(cur);
        S.tasks[cur]->chain_idx = 0;
        for (int i = 1; i < S.deep_chain; ++i) {
            int c = new_task(S, -1, (int)r.below(3), cur);
            S.tasks[c]->chain_idx = i;
            S.tasks[cur]->children.push_back(c);
            cur = c;
        }
    }
    S.nruns = 1 + (int)r.below(3);
    int ngap = S.nruns > 1 && r.chance(1, 2) ? 1 + (int)r.below(3) : 0;
    for (int i = 0; i < ngap; ++i) { int u = new_task(S, -3, E_INLOOP, -1); S.gap.push_back(u); }
    uint64_t total = S.tasks.size();
    uint64_t acc = 0;
    for (int k = 0; k < S.nruns; ++k) {
        if (r.chance(1, 3)) S.exit_after.push_back(0);   // quiesce mode: wait for everything with no stimulus
        else { acc += 1 + r.below(total / S.nruns + 2); S.exit_after.push_back((int)acc); }
    }
    if (S.deep_chain) S.exit_after[0] = 1 + (int)r.below(20);     // the first run exits while the chain is still young
    S.fd0_free = r.chance(1, 6);
    S.destroy_on_other_thread = r.chance(1, 2);
    static const int rd[] = {0, 0, 50, 300, 1500};
    S.runner_delay_us = r.pick(rd);
    sig.add(nsub); sig.add(total); sig.add(S.nruns); sig.add(S.deep_chain); sig.add(S.fd0_free);
    for (auto &t : S.tasks) { sig.add(t->owner); sig.add(t->entry); sig.add(t->children.size()); sig.add(t->cancels.size()); }
    for (int e : S.exit_after) sig.add(e);
    S.desc = vh::fmt("engine=%s submitters=%d tasks=%llu runs=%d exit_after=[", S.engine.c_str(), nsub, (unsigned long long)total, S.nruns);
    for (int e : S.exit_after) S.desc += vh::fmt("%d,", e);
    S.desc += vh::fmt("] prerun=%zu gap=%zu destroy_other=%d deep_chain=%d fd0_free=%d", S.prerun.size(), S.gap.size(), (int)S.destroy_on_other_thread, S.deep_chain, (int)S.fd0_free);
}

struct ProcStat { char state = '?'; unsigned long cpu = 0; };
ProcStat proc_stat(long tid) {
    ProcStat p;
    std::ifstream f(vh::fmt("/proc/self/task/%ld/stat", tid));
    std::string s((std::istreambuf_iterator<char>(f)), std::istreambuf_iterator<char>());
    size_t rp = s.rfind(')');
    if (rp == std::string::npos) return p;
    std::istringstream is(s.substr(rp + 2));
    std::string tok; std::vector<std::string> v;
    while (is >> tok) v.push_back(tok);
    if (v.size() > 13) { p.state = v[0][0]; p.cpu = strtoul(v[11].c_str(), nullptr, 10) + strtoul(v[12].c_str(), nullptr, 10); }
    return p;
}

// number of tasks that have been submitted (their submit call returned) and not executed/cancelled
uint64_t pending(Scenario &S) {
    uint64_t n = 0;
    for (auto &t : S.tasks) if (t->submitted.load(std::memory_order_acquire) && !t->exec_count.load() && !t->cancel_true.load()) ++n;
    return n;
}

void run_scenario(Scenario &S, bool &nontrivial) {
    S.loop = Loop::New(S.engine);
    if (!S.loop) { vh::viol("api/loop-new", "Loop::New(" + S.engine + ") failed"); return; }
    // emergency exit path that does not depend on the run-request wake-up: a pipe watched by an FdEvent
    int epipe[2];
    if (pipe(epipe) != 0) { vh::viol("harness/pipe", "pipe() failed"); return; }
    event::FdEvent *efd = S.loop->newFdEvent("c01-emergency");
    efd->initialize(epipe[0], event::FdEvent::kReadEvent, event::Event::Mode::kPersist);
    {
        Loop *l = S.loop; int rfd = epipe[0];
        efd->setCallback([l, rfd](short) { char b; if (read(rfd, &b, 1) < 0) {} l->exitLoop(); });
    }
    efd->enable();
    for (int u : S.prerun) submit(S, *S.tasks[u]);
    std::vector<std::thread> subs;
    for (size_t s = 0; s < S.sub_scripts.size(); ++s) {
        subs.emplace_back([&S, s] {
            for (int u : S.sub_scripts[s]) {
                Task &t = *S.tasks[u];
                if (t.pause_us) vc::sleep_us(t.pause_us);
                submit(S, t);
            }
            S.submitters_done.fetch_add(1);
        });
    }
    S.runs.resize(S.nruns);
    for (int k = 0; k < S.nruns; ++k) {
        if (k > 0) for (int u : S.gap) if (!S.tasks[u]->submitted.load()) submit(S, *S.tasks[u]);
        if (k == 0 && S.runner_delay_us) vc::sleep_us(S.runner_delay_us);
        S.exit_req_tick.store(0);
        S.exit_at.store(S.exit_after[k]);
        // descriptor value 0 for the loop's wake-up eventfd: stdin is parked on a high number for the duration of the run,
        // so the eventfd created at the start of runLoop() takes the lowest free number, 0 (nothing else opens descriptors
        // meanwhile: the submitters only call runInLoop(), the /proc probes run only after a stall)
        int saved_stdin = -1;
        if (S.fd0_free) {
            saved_stdin = fcntl(0, F_DUPFD_CLOEXEC, 200);
            if (saved_stdin >= 0) { close(0); vh::counter("runs_with_descriptor_0_free_for_the_wakeup_fd"); }
        }
        std::atomic<int> runner_state{0};
        std::atomic<long> runner_tid{0};
        std::thread runner([&S, k, &runner_state, &runner_tid] {
            runner_tid.store(vc::gettid_());
            S.runs[k].tid = vc::gettid_();
            S.runs[k].begin = vc::tick();
            S.cur_run.store(k);
            runner_state.store(1);
            S.loop->runLoop();
            S.cur_run.store(-1);
            S.runs[k].end = vc::tick();
            runner_state.store(2);
        });
        // orchestrator: decides when this run ends if the exit count is never reached
        bool quiesce = S.exit_after[k] == 0;
        int stalled = 0, exit_wait = 0;
        bool emergency = false;
        uint64_t last_exec = ~0ULL;
        auto confirm_asleep = [&]() -> bool {
            long tid = runner_tid.load();
            ProcStat a = proc_stat(tid); vc::sleep_us(1000000);
            ProcStat b = proc_stat(tid); vc::sleep_us(1000000);
            ProcStat c = proc_stat(tid);
            return a.state == 'S' && b.state == 'S' && c.state == 'S' && a.cpu == c.cpu;
        };
        auto fire_emergency = [&] { emergency = true; char b = 1; if (write(epipe[1], &b, 1) < 0) {} };
        for (long spins = 0; runner_state.load() != 2; ++spins) {
            vc::sleep_us(200);
            if (emergency) continue;
            if (S.exit_req_tick.load() != 0) {
                // exit requested (exitLoop() from a task, or an exit task posted with runInLoop): the run must end by itself
                if (++exit_wait < 25000) continue;           // >= 5 s
                uint64_t ex = S.executed.load();
                if (confirm_asleep() && S.executed.load() == ex && runner_state.load() != 2)
                    vh::viol("progress/lost-wakeup", vh::fmt("run %d: exit task posted with runInLoop() (or exitLoop() called) >5 s ago, loop thread still sleeping (state S, no CPU progress), %llu tasks pending",
                                                            k, (unsigned long long)pending(S)));
                else vh::counter("stall_inconclusive");
                fire_emergency();
                continue;
            }
            if (S.submitters_done.load() < (int)S.sub_scripts.size()) { stalled = 0; continue; }
            uint64_t ex = S.executed.load();
            uint64_t pend = pending(S);
            if (pend == 0) {
                // everything submitted so far has run (nested tasks included): end the run
                if (runner_state.load() == 1) {
                    S.exit_req_tick.store(vc::tick());
                    Loop *l = S.loop;
                    S.loop->runInLoop([l] { l->exitLoop(); }, "c01-exit");
                    vh::counter(quiesce ? "runs_quiesced_all_executed" : "runs_ended_by_orchestrator");
                }
                continue;
            }
            if (ex != last_exec) { last_exec = ex; stalled = 0; continue; }
            if (++stalled < 25000) continue;                 // >= 5 s without a single execution and work pending
            // bounded-progress failure. Confirm from /proc: loop thread asleep, no CPU progress over 3 samples 1 s apart
            if (confirm_asleep() && S.executed.load() == ex && pending(S) > 0)
                vh::viol("progress/lost-wakeup", vh::fmt("run %d: %llu submitted tasks pending, no execution for >5 s, loop thread sleeping (state S, cpu ticks unchanged) with no timers registered and no further stimulus",
                                                        k, (unsigned long long)pending(S)));
            else vh::counter("stall_inconclusive");
            S.exit_req_tick.store(vc::tick());
            fire_emergency();
            stalled = 0;
        }
        runner.join();
        if (saved_stdin >= 0) { dup2(saved_stdin, 0); close(saved_stdin); }
        S.runs[k].exit_req = S.exit_req_tick.load();
        if (k + 1 < S.nruns) vc::sleep_us((long)(vh::mix(S.tasks.size(), k) % 300));   // stopped gap
    }
    for (auto &t : subs) t.join();
    delete efd; close(epipe[0]); close(epipe[1]);
    // destruction (submitters are joined first: a call into a destroyed object is not in the property)
    auto destroy = [&S] {
        S.destroy.tid = vc::gettid_();
        S.destroy.begin = vc::tick();
        delete S.loop;
        S.destroy.end = vc::tick();
        S.loop = nullptr;
    };
    if (S.destroy_on_other_thread) { std::thread d(destroy); d.join(); } else destroy();

    // ---------------- offline check -----------------
    uint64_t n_pre = 0, n_overlap_begin = 0, n_exit_window = 0, n_gap = 0, n_after_last = 0, n_in_destroy = 0;
    for (auto &tp : S.tasks) {
        Task &t = *tp;
        uint32_t ec = t.exec_count.load();
        bool was_submitted = t.submitted.load() != 0;
        if (!was_submitted) {
            if (ec) vh::viol("history/unsubmitted-task-ran", vh::fmt("task %d was never submitted but ran", t.uid));
            continue;    // child of a cancelled/never-run parent
        }
        if (t.cancel_true.load()) {
            if (ec) vh::viol("history/cancelled-task-ran", vh::fmt("task %d (%s): cancel() returned true at tick %llu but the task ran at tick %llu", t.uid, ename[t.entry],
                                                                 (unsigned long long)t.cancel_tick.load(), (unsigned long long)t.exec_tick.load()));
            if (t.cancel_true.load() > 1) vh::viol("history/cancel-true-twice", vh::fmt("task %d cancelled successfully twice", t.uid));
            continue;
        }
        if (ec == 0) { vh::viol("history/task-dropped", vh::fmt("task %d (%s, owner %d, submitted at [%llu,%llu]) was never executed although the loop was run, exited and destroyed",
                                                             t.uid, ename[t.entry], t.owner, (unsigned long long)t.call.load(), (unsigned long long)t.ret.load())); continue; }
        if (ec > 1) { vh::viol("history/task-ran-twice", vh::fmt("task %d (%s) executed %u times", t.uid, ename[t.entry], ec)); continue; }
        uint64_t et = t.exec_tick.load();
        long etid = t.exec_tid.load();
        bool placed = false;
        for (int k = 0; k < S.nruns; ++k)
            if (et > S.runs[k].begin && et < S.runs[k].end) {
                placed = true;
                if (etid != S.runs[k].tid) vh::viol("thread/executed-off-loop-thread", vh::fmt("task %d executed on tid %ld while run %d was on tid %ld", t.uid, etid, k, S.runs[k].tid));
            }
        if (!placed && et > S.destroy.begin && et < S.destroy.end) {
            placed = true; ++n_in_destroy;
            if (etid != S.destroy.tid) vh::viol("thread/executed-off-destroying-thread", vh::fmt("task %d executed on tid %ld during destruction by tid %ld", t.uid, etid, S.destroy.tid));
        }
        if (!placed) vh::viol("thread/executed-outside-run-and-destroy", vh::fmt("task %d executed at tick %llu on tid %ld while no thread was running or destroying the loop (submitted by tid %ld)",
                                                                             t.uid, (unsigned long long)et, etid, t.sub_tid.load()));
        // window counters
        uint64_t c = t.call.load(), rt = t.ret.load();
        if (rt < S.runs[0].begin) ++n_pre;
        for (int k = 0; k < S.nruns; ++k) {
            if (c < S.runs[k].begin && rt > S.runs[k].begin) ++n_overlap_begin;
            if (S.runs[k].exit_req && c > S.runs[k].exit_req && c < S.runs[k].end) ++n_exit_window;
            if (k + 1 < S.nruns && c > S.runs[k].end && rt < S.runs[k + 1].begin) ++n_gap;
        }
        if (c > S.runs[S.nruns - 1].end) ++n_after_last;
    }
    // per (thread, entry) submission order == execution order
    {
        std::map<std::pair<long, int>, std::vector<Task *>> groups;
        for (auto &tp : S.tasks) if (tp->submitted.load() && tp->exec_count.load() == 1 && !tp->cancel_true.load())
            groups[{tp->sub_tid.load(), tp->entry}].push_back(tp.get());
        for (auto &g : groups) {
            auto &v = g.second;
            std::sort(v.begin(), v.end(), [](Task *a, Task *b) { return a->call.load() < b->call.load(); });
            for (size_t i = 1; i < v.size(); ++i)
                if (v[i]->exec_tick.load() < v[i - 1]->exec_tick.load()) {
                    vh::viol("order/same-thread-same-entry", vh::fmt("tasks %d then %d submitted by tid %ld through %s executed in the opposite order (ticks %llu, %llu)", v[i - 1]->uid, v[i]->uid,
                                                                   g.first.first, ename[g.first.second], (unsigned long long)v[i - 1]->exec_tick.load(), (unsigned long long)v[i]->exec_tick.load()));
                    break;
                }
        }
    }
    if (S.deep_chain) {
        uint64_t after_first = 0;
        for (auto &tp : S.tasks) if (tp->chain_idx >= 0 && tp->exec_count.load() == 1 && tp->exec_tick.load() > S.runs[0].end) ++after_first;
        vh::counter("deep_chain_scenarios");
        vh::counter("deep_chain_links_left_over_by_the_first_bounded_drain", after_first);
        if (after_first) nontrivial = true;
    }
    vh::counter("tasks", S.tasks.size());
    vh::counter("win_submitted_before_first_run", n_pre);
    vh::counter("win_submission_overlapping_run_begin", n_overlap_begin);
    vh::counter("win_submitted_while_exiting", n_exit_window);
    vh::counter("win_submitted_in_stopped_gap", n_gap);
    vh::counter("win_submitted_after_last_run", n_after_last);
    vh::counter("executed_in_destructor", n_in_destroy);
    vh::counter("cancel_true", S.cancels_true.load());
    vh::counter("cancel_false", S.cancels_false.load());
    vh::counter("cancel_true_same_batch_sibling", S.cancel_in_batch.load());
    vh::counter("cancel_of_self_while_running", S.self_cancels.load());
    vh::counter("reruns", S.nruns - 1);
    if (n_overlap_begin || n_exit_window || n_gap || S.nruns > 1) nontrivial = true;
}

void one_case(uint64_t idx, vh::Rng &r) {
    static const int dmax[] = {0, 30, 150, 300};
    vc::set_delays(vh::mix(vh::st().args.seed, idx), (int)r.below(9), r.pick(dmax));
    uint64_t gseed = r.next();
    for (int e = 0; e < 2; ++e) {       // same script on both back-ends
        vh::Rng g(gseed);
        Scenario S;
        S.engine = e == 0 ? "epoll" : "select";
        vh::Sig sig; sig.add(e);
        gen(g, S, sig);
        vh::st().case_desc = S.desc;
        bool nontrivial = false;
        run_scenario(S, nontrivial);
        vh::counter(e == 0 ? "scenarios_epoll" : "scenarios_select");
        vh::note_case(sig.h, nontrivial);
        if (nontrivial && vh::want_sample()) {
            std::string s = "{\"scenario\":" + vh::jstr(S.desc) + ",\"runs\":[";
            for (int k = 0; k < S.nruns; ++k) s += vh::fmt("%s{\"tid\":%ld,\"begin\":%llu,\"exit_req\":%llu,\"end\":%llu}", k ? "," : "", S.runs[k].tid,
                                                           (unsigned long long)S.runs[k].begin, (unsigned long long)S.runs[k].exit_req, (unsigned long long)S.runs[k].end);
            s += "],\"first_tasks\":[";
            for (size_t i = 0; i < S.tasks.size() && i < 6; ++i) {
                Task &t = *S.tasks[i];
                s += vh::fmt("%s{\"uid\":%d,\"entry\":\"%s\",\"owner\":%d,\"submit\":[%llu,%llu],\"exec_tick\":%llu,\"exec_tid\":%ld,\"cancelled\":%d}", i ? "," : "", t.uid, ename[t.entry], t.owner,
                             (unsigned long long)t.call.load(), (unsigned long long)t.ret.load(), (unsigned long long)t.exec_tick.load(), t.exec_tid.load(), t.cancel_true.load());
            }
            s += "]}";
            vh::sample(s);
        }
    }
    vh::counter("verif_point_delays", vc::dcfg().delays.exchange(0));
}

}  // namespace

int main(int argc, char **argv) { return vh::run(argc, argv, one_case); }
