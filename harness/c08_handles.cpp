// C08: handles never dangle or alias - cabinet tokens, pooled objects, shared descriptors (+ lifetime tags).
// Lock-step reference models over generated histories, under ASan+UBSan with the pool-poisoning hook.
//
// modes
//   cabinet    random histories on one Cabinet<Obj>: alloc/update/free/at/[]/clear/foreach-with-removal/reserve, with live,
//              stale, null (id 0) and forged tokens
//   cabinet-x  every history of fixed --depth over a 16-operation alphabet (tokens addressed by issue order, plus the null token)
//   pool       random alloc/free histories on 1-2 ObjectPool<T> (four probe types, one of which re-enters alloc()/free() of its
//              own pool from its constructor/destructor; retention limits 0,1,2,3,64,unbounded)
//   fd         random copy/move/assign/swap/reset/close/destroy histories on up to 6 Fd handles over recording
//              close functions and real pipe descriptors
//   fd-x       every history of fixed --depth over a 36-operation alphabet on 3 Fd handles
//   lifetime   random histories on LifetimeTag / LifetimeTag::Watcher
//   xcount     print the size of the exhaustive space (--which cabinet|fd, --depth N)
//
// A case stops at its first violation (later observations would only be echoes of the first one).
#include "common/vh.hpp"

#include <utility>
#include <memory>
#include <map>
#include <set>
#include <vector>
#include <string>
#include <algorithm>
#include <cerrno>
#include <sys/stat.h>
#include <fcntl.h>
#include <unistd.h>
#include <pthread.h>

#include <tbox/base/cabinet.hpp>
#include <tbox/base/object_pool.hpp>
#include <tbox/base/lifetime_tag.hpp>
#include <tbox/util/fd.h>

#if defined(__SANITIZE_ADDRESS__)
// (gcc ships asan_interface.h but not allocator_interface.h; the symbol is exported by libasan)
extern "C" void __lsan_ignore_object(const void *p);
extern "C" int __sanitizer_install_malloc_and_free_hooks(void (*malloc_hook)(const volatile void *, size_t),
                                                         void (*free_hook)(const volatile void *));
# define C08_HAVE_ALLOC_HOOKS 1
#else
static inline void __lsan_ignore_object(const void *) {}
#endif

using tbox::cabinet::Cabinet;
using tbox::cabinet::Token;
using tbox::util::Fd;
using tbox::LifetimeTag;

namespace {

// ---------------------------------------------------------------------------------------------
// Heap tracker: every block malloc'ed while the library is executing (and the harness is not inside one
// of its own call-backs) is remembered until it is freed. At the end of a case nothing may be left:
// that is how a lost Fd::Detail, a parked pool block that the pool destructor forgot, or a
// LifetimeTag::Detail nobody deleted is attributed to the case that lost it (LeakSanitizer at process
// exit is the backstop). It also counts heap traffic inside single ObjectPool calls.
// ---------------------------------------------------------------------------------------------
namespace trk {
const size_t CAP = 4096;                 // power of two
const volatile void *tab[CAP];
uint16_t used_idx[CAP];
size_t used_n = 0;
size_t live_n = 0;
bool overflow = false;
bool available = false;
int in_lib = 0;
int susp = 0;
uint64_t mallocs = 0, frees = 0;         // heap calls made while tracking is active
const volatile void *const TOMB = reinterpret_cast<const volatile void *>(1);

inline size_t slot_of(const volatile void *p) {
    uint64_t x = (uint64_t)(uintptr_t)p;
    x ^= x >> 17; x *= 0x9e3779b97f4a7c15ULL; x ^= x >> 29;
    return (size_t)x & (CAP - 1);
}
int trace_budget = -1;      // debugging aid (--trace-heap 1): print the stack of every tracked allocation beyond this budget
extern "C" void __sanitizer_print_stack_trace(void);
pthread_t main_thread;      // the harness kit runs a watchdog thread; its heap traffic is none of our business
inline bool foreign_thread() { return !pthread_equal(pthread_self(), main_thread); }
void on_malloc(const volatile void *p, size_t sz) {
    if (foreign_thread()) return;
    if (!in_lib || susp || p == nullptr) return;
    ++mallocs;
    if (trace_budget >= 0 && trace_budget-- == 0) {
        trace_budget = 0;
        int s = susp; susp = 1;
        fprintf(stderr, "C08-TRACE unexpected tracked malloc of %zu bytes\n", sz);
        __sanitizer_print_stack_trace();
        susp = s;
    }
    if (used_n >= CAP / 2) { overflow = true; return; }
    size_t i = slot_of(p);
    while (tab[i] != nullptr && tab[i] != TOMB) i = (i + 1) & (CAP - 1);
    if (tab[i] == nullptr) used_idx[used_n++] = (uint16_t)i;
    tab[i] = p;
    ++live_n;
}
void on_free(const volatile void *p) {
    if (p == nullptr || foreign_thread()) return;
    if (in_lib && !susp) ++frees;
    if (live_n == 0) return;
    size_t i = slot_of(p);
    while (tab[i] != nullptr) {
        if (tab[i] == p) { tab[i] = TOMB; --live_n; return; }
        i = (i + 1) & (CAP - 1);
    }
}
void reset() {
    for (size_t k = 0; k < used_n; ++k) tab[used_idx[k]] = nullptr;
    used_n = 0; live_n = 0; overflow = false; in_lib = 0; susp = 0;
}
void install() {
    main_thread = pthread_self();
#if defined(C08_HAVE_ALLOC_HOOKS)
    available = __sanitizer_install_malloc_and_free_hooks(on_malloc, on_free) != 0;
#endif
}
}  // namespace trk

//! scope of a call into the library under test
struct Lib {
    int saved;
    Lib() : saved(trk::susp) { trk::susp = 0; ++trk::in_lib; }
    ~Lib() { --trk::in_lib; trk::susp = saved; }
};
//! scope of harness code that the library called back into (visitor, close function, probe ctor/dtor)
struct Harn {
    int saved;
    Harn() : saved(trk::susp) { trk::susp = 1; }
    ~Harn() { trk::susp = saved; }
};

// ---------------------------------------------------------------------------------------------
// per-case context
// ---------------------------------------------------------------------------------------------
struct Ctx {
    bool record = true;
    bool failed = false;
    std::string fkey, fdetail;
    std::string script;
    vh::Sig sig;
};
Ctx *g = nullptr;

void logop(const std::string &s) {
    if (!g->record) return;
    g->script += s; g->script += ';';
    vh::st().case_desc = g->script;
}
void fail(const std::string &key, const std::string &detail) {
    if (g->failed) return;
    g->failed = true; g->fkey = key; g->fdetail = detail;
    if (g->record) vh::viol(key, detail);
}
#define CHK(cond, key, ...) do { if (!(cond)) fail((key), vh::fmt(__VA_ARGS__)); } while (0)

// counters without a string construction and a map lookup per hit (std::map nodes never move)
#define CNTN(name, inc) do { static uint64_t *p_ = &vh::st().counters[name]; *p_ += (uint64_t)(inc); } while (0)
#define CNT(name) CNTN(name, 1)
#define CMAX(name, v) do { static uint64_t *p_ = &vh::st().counters[name]; if ((uint64_t)(v) > *p_) *p_ = (uint64_t)(v); } while (0)

void check_no_lost_blocks(const char *what) {
    if (g->failed || !trk::available) return;
    if (trk::overflow) { CNT("tracker_overflow"); return; }
    CHK(trk::live_n == 0, std::string("leak/") + what,
        "%zu heap block(s) allocated inside %s calls are still allocated after every object of the case was destroyed",
        trk::live_n, what);
    CNT("leak_checks");
}

// =============================================================================================
// Cabinet
// =============================================================================================
struct Obj { uint64_t serial; };
typedef std::pair<size_t, size_t> TKey;   // (id, pos): the model never uses Token's own comparison operators
inline TKey keyof(const Token &t) { return TKey(t.id(), t.pos()); }

struct CabWorld {
    std::unique_ptr<Cabinet<Obj> > cab;
    struct Entry { Token tok; Obj *obj; };
    std::map<TKey, Entry> live;
    std::set<TKey> issued;                    // every token this cabinet ever returned
    std::vector<Token> issued_order;
    std::vector<Token> stale;                 // freed tokens, in the order they were freed
    std::vector<std::unique_ptr<Obj> > objs;  // never released before the end of the case: pointers stay unique
    std::map<Obj *, TKey> holder;             // object -> live entry currently storing it
    std::set<size_t> used_pos;                // positions handed out since the last clear
    size_t stale_before_clear = 0;            // stale[0..n) were freed before the last clear()
    uint64_t next_serial = 1;
    // non-triviality
    bool saw_reuse = false, saw_stale_on_reused_slot = false, saw_foreach_free = false, saw_clear_realloc = false;
    bool cleared_once = false;

    CabWorld() { Lib l; cab.reset(new Cabinet<Obj>()); }
    ~CabWorld() { Lib l; cab.reset(); }

    Obj *new_obj() { objs.emplace_back(new Obj{next_serial++}); return objs.back().get(); }

    void model_free(const TKey &k) {
        auto it = live.find(k);
        if (it->second.obj) holder.erase(it->second.obj);
        stale.push_back(it->second.tok);
        live.erase(it);
    }

    // ---- operations --------------------------------------------------------------------------
    void op_alloc(bool with_obj) {
        Obj *o = with_obj ? new_obj() : nullptr;
        Token t;
        { Lib l; t = with_obj ? cab->alloc(o) : cab->alloc(); }
        g->sig.add(with_obj ? 1 : 2);
        logop(vh::fmt("alloc(%s)->(%zu,%zu)", with_obj ? "obj" : "", t.id(), t.pos()));
        CNT("cab_alloc");
        if (cleared_once && stale_before_clear > 0) { saw_clear_realloc = true; CNT("cab_alloc_after_clear"); }
        CHK(!t.isNull() && bool(t), "cabinet/alloc/null-token", "alloc returned the null token (id=%zu pos=%zu)", t.id(), t.pos());
        if (g->failed) return;
        TKey k = keyof(t);
        CHK(live.find(k) == live.end(), "cabinet/alloc/token-equals-live-token",
            "alloc returned token (id=%zu,pos=%zu) which is the token of an entry that is still live", t.id(), t.pos());
        if (g->failed) return;
        if (issued.count(k)) {
            fail("cabinet/alloc/token-reissued",
                 vh::fmt("alloc returned token (id=%zu,pos=%zu), equal to a token this cabinet issued earlier and has since freed%s: "
                         "the old handle now resolves to the new entry", t.id(), t.pos(),
                         cleared_once ? " (a clear() lies between the two allocations)" : ""));
            return;
        }
        for (auto &kv : live)
            CHK(kv.first.second != k.second, "cabinet/alloc/slot-of-live-entry",
                "alloc returned position %zu which still holds live entry (id=%zu)", k.second, kv.first.first);
        if (g->failed) return;
        if (used_pos.count(k.second)) { CNT("cab_alloc_reused_slot"); saw_reuse = true; }
        else CNT("cab_alloc_new_slot");
        used_pos.insert(k.second);
        issued.insert(k);
        issued_order.push_back(t);
        live[k] = Entry{t, o};
        if (o) holder[o] = k;
        CMAX("max_cab_live", live.size());
        CMAX("max_cab_free_cells", used_pos.size() - live.size());
    }

    void op_free_live(const TKey &k) {
        Entry e = live[k];
        Obj *r;
        { Lib l; r = cab->free(e.tok); }
        g->sig.add(3); g->sig.add(k.second);
        logop(vh::fmt("free(%zu,%zu)", k.first, k.second));
        CNT("cab_free");
        CHK(r == e.obj, "cabinet/free/wrong-object", "free(id=%zu,pos=%zu) returned %p, the entry stored %p",
            k.first, k.second, (void *)r, (void *)e.obj);
        model_free(k);
    }

    //! is position p a cell that is currently on the cabinet's free list (handed out since the last clear, not live now)?
    bool slot_is_free(size_t p) const {
        if (!used_pos.count(p)) return false;
        for (auto &kv : live) if (kv.first.second == p) return false;
        return true;
    }
    //! bookkeeping for operations with tokens that are not live: kind = "stale" (issued and freed), "null" (id 0: Token(),
    //! a reset() token, Token(0,pos)), "forged" (id != 0 that this cabinet never paired with that position)
    void count_non_live(const char *kind, const Token &t, bool is_free) {
        if (kind[0] == 's') { if (is_free) CNT("cab_free_stale_rejected"); else CNT("cab_update_stale_rejected"); }
        else if (kind[0] == 'n') {
            if (is_free) CNT("cab_null_token_free"); else CNT("cab_null_token_update");
            if (slot_is_free(t.pos())) { if (is_free) CNT("cab_null_token_free_on_free_slot"); else CNT("cab_null_token_update_on_free_slot"); }
            if (t.pos() != 0) CNT("cab_null_token_nonzero_pos");
        } else CNT("cab_forged_token_ops");
    }

    //! free() with a token that is not live: nothing may happen
    void op_free_stale(const Token &t, const char *kind = "stale") {
        size_t before;
        Obj *r;
        { Lib l; before = cab->size(); r = cab->free(t); }
        g->sig.add(4); g->sig.add((uint64_t)kind[0]);
        logop(vh::fmt("free_%s(%zu,%zu)", kind, t.id(), t.pos()));
        count_non_live(kind, t, true);
        CHK(r == nullptr, std::string("cabinet/free/") + kind + "-token-freed-something",
            "free() of %s token (id=%zu,pos=%zu) returned %p instead of nothing", kind, t.id(), t.pos(), (void *)r);
        size_t after; { Lib l; after = cab->size(); }
        CHK(after == before, std::string("cabinet/free/") + kind + "-token-changed-size",
            "free() of %s token (id=%zu,pos=%zu) changed size() from %zu to %zu", kind, t.id(), t.pos(), before, after);
    }

    void op_update_live(const TKey &k, bool with_obj) {
        Entry &e = live[k];
        Obj *o = with_obj ? new_obj() : nullptr;
        bool ok;
        { Lib l; ok = cab->update(e.tok, o); }
        g->sig.add(5); g->sig.add(with_obj);
        logop(vh::fmt("update(%zu,%zu,%s)", k.first, k.second, with_obj ? "obj" : "null"));
        CNT("cab_update");
        CHK(ok, "cabinet/update/live-token-rejected", "update() of live token (id=%zu,pos=%zu) returned false", k.first, k.second);
        if (g->failed) return;
        if (e.obj) holder.erase(e.obj);
        e.obj = o;
        if (o) holder[o] = k;
    }

    //! update() with a token that is not live: must be refused
    void op_update_stale(const Token &t, const char *kind = "stale") {
        Obj *o = new_obj();
        bool ok;
        { Lib l; ok = cab->update(t, o); }
        g->sig.add(6); g->sig.add((uint64_t)kind[0]);
        logop(vh::fmt("update_%s(%zu,%zu)", kind, t.id(), t.pos()));
        count_non_live(kind, t, false);
        CHK(!ok, std::string("cabinet/update/") + kind + "-token-accepted", "update() of %s token (id=%zu,pos=%zu) returned true",
            kind, t.id(), t.pos());
    }

    //! at() and [] with a token that is not live (null / forged): nothing
    void op_lookup_non_live(const Token &t, const char *kind) {
        Obj *a, *b;
        { Lib l; a = cab->at(t); b = (*cab)[t]; }
        g->sig.add(10); g->sig.add((uint64_t)kind[0]);
        logop(vh::fmt("at_%s(%zu,%zu)", kind, t.id(), t.pos()));
        if (kind[0] == 'n') CNT("cab_null_token_lookup"); else CNT("cab_forged_token_ops");
        CHK(a == nullptr && b == nullptr, std::string("cabinet/at/") + kind + "-token-resolves",
            "%s token (id=%zu,pos=%zu) resolves to at()=%p []=%p", kind, t.id(), t.pos(), (void *)a, (void *)b);
    }

    //! a token with id 0: default constructed, a real token after reset(), or id 0 with an arbitrary position
    Token make_null_token(vh::Rng &r) {
        size_t cells = used_pos.size();
        switch (r.below(8)) {
            case 0: case 1: return Token();
            case 2: case 3: { Token t = issued_order.empty() ? Token(7, 3) : issued_order[r.below(issued_order.size())]; t.reset(); return t; }
            case 4: return Token(0, cells ? (size_t)r.below(cells) : 0);     // some existing cell
            case 5: return Token(0, cells);                                   // one past the last cell
            case 6: return Token(0, cells + 1 + (size_t)r.below(4));
            default: return Token(0, std::numeric_limits<size_t>::max() - (size_t)r.below(2));
        }
    }
    //! a token with a non-zero id that is not live and was never issued by this cabinet
    Token make_forged_token(vh::Rng &r) {
        size_t cells = used_pos.size();
        size_t max_id = issued_order.empty() ? 0 : issued_order.back().id();
        for (int tries = 0; tries < 8; ++tries) {
            Token t;
            switch (r.below(6)) {
                case 0: t = Token(live.empty() ? 1 : live.begin()->first.first, cells); break;                         // live id, one past the end
                case 1: t = Token(live.empty() ? 1 : live.rbegin()->first.first, std::numeric_limits<size_t>::max()); break;
                case 2: t = Token(live.empty() ? 1 : live.begin()->first.first, cells ? (size_t)r.below(cells) : 0); break;   // live id, another cell
                case 3: t = Token(max_id + 1 + (size_t)r.below(3), cells ? (size_t)r.below(cells) : 0); break;          // id not issued yet
                case 4: t = Token(std::numeric_limits<size_t>::max(), cells ? (size_t)r.below(cells) : 0); break;
                default: t = Token(1 + (size_t)r.below(max_id + 1), cells + (size_t)r.below(3)); break;                 // any id, out of range
            }
            if (!t.isNull() && !issued.count(keyof(t))) return t;
        }
        return Token(std::numeric_limits<size_t>::max(), std::numeric_limits<size_t>::max());
    }

    void op_clear() {
        { Lib l; cab->clear(); }
        g->sig.add(7);
        logop("clear()");
        CNT("cab_clear");
        if (!live.empty()) CNT("cab_clear_nonempty");
        while (!live.empty()) model_free(live.begin()->first);
        used_pos.clear();
        stale_before_clear = stale.size();
        cleared_once = true;
    }

    void op_reserve(size_t n) {
        { Lib l; cab->reserve(n); }
        g->sig.add(8);
        logop(vh::fmt("reserve(%zu)", n));
    }

    //! what the visitor does at each visit: bits chosen per visit from `plan` (random) or fixed (exhaustive)
    enum VisitAct { V_NONE = 0, V_FREE_CURRENT = 1, V_FREE_OTHER = 2, V_FREE_STALE = 3, V_LOOKUP = 4 };

    //! `choose(visit_no)` returns the action for that visit; `pick(n)` returns an index < n
    void op_foreach(const std::function<int(size_t)> &choose, const std::function<size_t(size_t)> &pick) {
        std::set<TKey> at_start;
        size_t null_at_start = 0;
        for (auto &kv : live) { at_start.insert(kv.first); if (!kv.second.obj) ++null_at_start; }
        std::set<TKey> visited;
        size_t null_visits = 0, visits = 0, freed_cur = 0, freed_other = 0;
        g->sig.add(9);
        logop("foreach{");
        CNT("cab_foreach");
        auto visitor = [&](Obj *o) {
            Harn h;
            if (g->failed) return;
            size_t vno = visits++;
            TKey cur(0, 0);
            bool identified = false;
            if (o == nullptr) {
                ++null_visits;
            } else {
                auto hit = holder.find(o);
                if (hit == holder.end()) {
                    // `o` may be anything (e.g. a free-list link read as a pointer): never dereference it here
                    fail("cabinet/foreach/visited-dead-entry",
                         vh::fmt("visit %zu presented pointer %p which is not the object of any live entry (entry freed earlier, or never stored)",
                                 vno, (void *)o));
                    return;
                }
                cur = hit->second; identified = true;
                if (!visited.insert(cur).second) {
                    fail("cabinet/foreach/visited-twice", vh::fmt("entry (id=%zu,pos=%zu) was visited twice", cur.first, cur.second));
                    return;
                }
                if (!at_start.count(cur)) {
                    fail("cabinet/foreach/visited-entry-not-live-at-start",
                         vh::fmt("entry (id=%zu,pos=%zu) was not live when the iteration began", cur.first, cur.second));
                    return;
                }
            }
            int act = choose(vno);
            g->sig.add((uint64_t)act);
            if (act == V_FREE_CURRENT && identified) {
                Entry e = live[cur];
                Obj *r; { Lib l; r = cab->free(e.tok); }
                if (g->record) { g->script += vh::fmt("free-cur(%zu,%zu),", cur.first, cur.second); }
                CHK(r == e.obj, "cabinet/free/wrong-object", "free (inside foreach) of (id=%zu,pos=%zu) returned %p, stored %p",
                    cur.first, cur.second, (void *)r, (void *)e.obj);
                model_free(cur); ++freed_cur;
            } else if (act == V_FREE_OTHER && !live.empty()) {
                auto it = live.begin(); std::advance(it, (long)pick(live.size()));
                TKey k = it->first;
                if (identified && k == cur) { it = live.begin(); k = it->first; }
                Entry e = it->second;
                Obj *r; { Lib l; r = cab->free(e.tok); }
                if (g->record) { g->script += vh::fmt("free(%zu,%zu),", k.first, k.second); }
                CHK(r == e.obj, "cabinet/free/wrong-object", "free (inside foreach) of (id=%zu,pos=%zu) returned %p, stored %p",
                    k.first, k.second, (void *)r, (void *)e.obj);
                model_free(k);
                if (identified && k == cur) ++freed_cur; else ++freed_other;
            } else if (act == V_FREE_STALE && !stale.empty()) {
                const bool use_null = pick(3) == 0;
                const Token t = use_null ? Token() : stale[pick(stale.size())];
                if (use_null) count_non_live("null", t, true);
                Obj *r; { Lib l; r = cab->free(t); }
                if (g->record) { g->script += vh::fmt("free_%s(%zu,%zu),", use_null ? "null" : "stale", t.id(), t.pos()); }
                CHK(r == nullptr, use_null ? "cabinet/free/null-token-freed-something" : "cabinet/free/stale-token-freed-something",
                    "free() (inside foreach) of %s token (id=%zu,pos=%zu) returned %p", use_null ? "null" : "stale", t.id(), t.pos(), (void *)r);
            } else if (act == V_LOOKUP && !live.empty()) {
                auto it = live.begin(); std::advance(it, (long)pick(live.size()));
                Obj *r; { Lib l; r = cab->at(it->second.tok); }
                CHK(r == it->second.obj, "cabinet/at/live-token-wrong-object", "at(id=%zu,pos=%zu) inside foreach returned %p, stored %p",
                    it->first.first, it->first.second, (void *)r, (void *)it->second.obj);
            }
        };
        { Lib l; cab->foreach(visitor); }
        logop("}");
        if (g->failed) return;
        CNTN("cab_foreach_visits", visits);
        if (freed_cur) { CNTN("cab_foreach_free_current", freed_cur); saw_foreach_free = true; }
        if (freed_other) { CNTN("cab_foreach_free_other", freed_other); saw_foreach_free = true; }
        // every entry live at the end was visited exactly once
        size_t null_at_end = 0;
        for (auto &kv : live) {
            if (!kv.second.obj) { ++null_at_end; continue; }
            CHK(visited.count(kv.first), "cabinet/foreach/live-entry-not-visited",
                "entry (id=%zu,pos=%zu) is live after the iteration but was never presented to the visitor",
                kv.first.first, kv.first.second);
        }
        CHK(null_visits >= null_at_end && null_visits <= null_at_start, "cabinet/foreach/null-entry-visit-count",
            "visitor saw %zu object-less entries; %zu were live at the start and %zu at the end", null_visits, null_at_start, null_at_end);
    }

    // ---- the after-every-operation check -----------------------------------------------------------
    void verify(vh::Rng *r, bool probe_all_stale) {
        if (g->failed) return;
        size_t sz; bool em;
        { Lib l; sz = cab->size(); em = cab->empty(); }
        CHK(sz == live.size(), "cabinet/size/mismatch", "size()=%zu but %zu entries are live", sz, live.size());
        CHK(em == live.empty(), "cabinet/size/empty-mismatch", "empty()=%d but %zu entries are live", (int)em, live.size());
        if (g->failed) return;
        for (auto &kv : live) {
            Obj *a, *b;
            { Lib l; a = cab->at(kv.second.tok); b = (*cab)[kv.second.tok]; }
            if (a != kv.second.obj || b != kv.second.obj) {
                fail("cabinet/at/live-token-wrong-object",
                     vh::fmt("live token (id=%zu,pos=%zu) resolves to at()=%p []=%p, the entry stores %p",
                             kv.first.first, kv.first.second, (void *)a, (void *)b, (void *)kv.second.obj));
                return;
            }
        }
        CNTN("cab_live_lookup", live.size());
        // stale tokens: everything freed recently plus a sample of the older ones
        size_t n = stale.size();
        std::vector<char> live_pos;
        for (auto &kv : live) { if (kv.first.second >= live_pos.size()) live_pos.resize(kv.first.second + 1, 0); live_pos[kv.first.second] = 1; }
        size_t recent = n < 64 ? n : 64;
        size_t extra = probe_all_stale ? n - recent : (n - recent < 192 ? n - recent : 192);
        for (size_t i = 0; i < recent + extra; ++i) {
            size_t idx;
            if (i < recent) idx = n - 1 - i;
            else if (probe_all_stale || n - recent <= 192) idx = i - recent;
            else idx = (size_t)r->below(n - recent);
            const Token &t = stale[idx];
            Obj *a; { Lib l; a = cab->at(t); }
            bool slot_reused = t.pos() < live_pos.size() && live_pos[t.pos()];
            if (a != nullptr) {
                fail(slot_reused ? "cabinet/at/stale-token-resolves-after-slot-reuse" : "cabinet/at/stale-token-resolves",
                     vh::fmt("stale token (id=%zu,pos=%zu), freed %s, still resolves to %p", t.id(), t.pos(),
                             idx < stale_before_clear ? "before the last clear()" : "since the last clear()", (void *)a));
                return;
            }
            if (slot_reused) { CNT("cab_stale_lookup_slot_reused"); saw_stale_on_reused_slot = true; }
            if (idx < stale_before_clear) CNT("cab_stale_lookup_after_clear");
        }
        CNTN("cab_stale_lookup", recent + extra);
        {
            const size_t cells = used_pos.size(), big = std::numeric_limits<size_t>::max();
            const Token probes[] = {Token(), Token(0, 1), Token(0, cells ? cells - 1 : 0), Token(0, cells), Token(0, big),
                                    Token(big, 0), Token(big, cells), Token(1, big)};
            for (const Token &t : probes) {
                if (live.count(keyof(t))) continue;
                Obj *a, *b;
                { Lib l; a = cab->at(t); b = (*cab)[t]; }
                if (a != nullptr || b != nullptr) {
                    fail(t.isNull() ? "cabinet/at/null-token-resolves" : "cabinet/at/forged-token-resolves",
                         vh::fmt("token (id=%zu,pos=%zu), which is not the token of any entry, resolves to at()=%p []=%p",
                                 t.id(), t.pos(), (void *)a, (void *)b));
                    return;
                }
            }
            CNTN("cab_null_token_lookup", 5);
        }
    }

    //! Token's own comparison operators and hash agree with (id,pos) equality on the live tokens
    void verify_token_relations() {
        if (g->failed || live.size() < 2) return;
        const Entry *prev = nullptr;
        for (auto &kv : live) {
            if (prev) {
                const Token &a = prev->tok, &b = kv.second.tok;
                CHK(a != b && !(a == b), "token/equal/distinct-tokens-compare-equal", "tokens (%zu,%zu) and (%zu,%zu) compare equal",
                    a.id(), a.pos(), b.id(), b.pos());
                CHK((a < b) != (b < a), "token/less/not-a-strict-order", "tokens (%zu,%zu) and (%zu,%zu): a<b=%d b<a=%d",
                    a.id(), a.pos(), b.id(), b.pos(), (int)(a < b), (int)(b < a));
                Token c = b;
                CHK(c == b && std::hash<Token>()(c) == std::hash<Token>()(b), "token/equal/copy-differs", "a copied token differs from its source");
            }
            prev = &kv.second;
        }
        CNT("token_relation_checks");
    }

    bool nontrivial() const { return saw_reuse && saw_stale_on_reused_slot; }
};

void cabinet_case(uint64_t, vh::Rng &r) {
    Ctx c; g = &c;
    trk::reset();
    {
        CabWorld w;
        int nops = 60 + (int)r.below(200);
        static const size_t caps[] = {3, 6, 16, 48};
        size_t cap = r.pick(caps);
        int clear_w = r.chance(1, 3) ? 6 : 1;
        int phase = 0;   // 0 churn, 1 grow, 2 drain
        int phase_left = 0;
        for (int k = 0; k < nops && !c.failed; ++k) {
            if (phase_left-- <= 0) { phase = (int)r.below(3); phase_left = 8 + (int)r.below(40); }
            int alloc_w = phase == 1 ? 60 : phase == 2 ? 10 : 30;
            int free_w = phase == 2 ? 60 : phase == 1 ? 10 : 30;
            int total = alloc_w + free_w + 6 /*free stale*/ + 8 /*update*/ + 5 /*update stale*/ + clear_w + 8 /*foreach*/ + 2 /*reserve*/
                        + 7 /*null or forged token*/;
            int x = (int)r.below((uint64_t)total);
            auto pick_live = [&]() -> TKey {
                // newest, oldest or uniformly random entry
                switch (r.below(4)) {
                    case 0: return w.live.rbegin()->first;
                    case 1: return w.live.begin()->first;
                    default: { auto it = w.live.begin(); std::advance(it, (long)r.below(w.live.size())); return it->first; }
                }
            };
            auto pick_stale = [&]() -> Token {
                size_t n = w.stale.size();
                if (r.chance(1, 2)) return w.stale[n - 1 - r.below(n < 8 ? n : 8)];
                return w.stale[r.below(n)];
            };
            if ((x -= alloc_w) < 0) {
                if (w.live.size() < cap) w.op_alloc(!r.chance(1, 6));
                else w.op_free_live(pick_live());
            } else if ((x -= free_w) < 0) {
                if (!w.live.empty()) w.op_free_live(pick_live());
                else w.op_alloc(true);
            } else if ((x -= 6) < 0) {
                if (!w.stale.empty()) w.op_free_stale(pick_stale()); else w.op_alloc(true);
            } else if ((x -= 8) < 0) {
                if (!w.live.empty()) w.op_update_live(pick_live(), !r.chance(1, 5)); else w.op_alloc(false);
            } else if ((x -= 5) < 0) {
                if (!w.stale.empty()) w.op_update_stale(pick_stale()); else w.op_alloc(true);
            } else if ((x -= clear_w) < 0) {
                w.op_clear();
            } else if ((x -= 7) < 0) {
                // a token that is not the token of any entry: nothing may happen, whatever is done with it
                const bool null_tok = !r.chance(1, 4);
                const Token t = null_tok ? w.make_null_token(r) : w.make_forged_token(r);
                const char *kind = null_tok ? "null" : "forged";
                switch (r.below(5)) {
                    case 0: case 1: w.op_free_stale(t, kind); break;
                    case 2: case 3: w.op_update_stale(t, kind); break;
                    default: w.op_lookup_non_live(t, kind); break;
                }
            } else if ((x -= 8) < 0) {
                int style = (int)r.below(5);   // 0 read-only, 1 free every current, 2 random mix, 3 free others, 4 drain from first visit
                w.op_foreach(
                    [&](size_t vno) -> int {
                        switch (style) {
                            case 0: return r.chance(1, 4) ? CabWorld::V_LOOKUP : CabWorld::V_NONE;
                            case 1: return CabWorld::V_FREE_CURRENT;
                            case 3: return r.chance(1, 2) ? CabWorld::V_FREE_OTHER : CabWorld::V_NONE;
                            case 4: return vno == 0 ? CabWorld::V_FREE_OTHER : (int)r.below(3);
                            default: return (int)r.below(5);
                        }
                    },
                    [&](size_t n) -> size_t { return (size_t)r.below(n); });
            } else {
                w.op_reserve((size_t)r.below(100));
            }
            w.verify(&r, false);
            if ((k & 7) == 7) w.verify_token_relations();
        }
        CNTN("ops", (uint64_t)nops);
        vh::note_case(c.sig.h, w.nontrivial());
        if (!c.failed && w.nontrivial() && w.saw_foreach_free && vh::want_sample())
            vh::sample("{\"mode\":\"cabinet\",\"script\":" + vh::jstr(c.script.substr(0, 900)) + "}");
    }
    check_no_lost_blocks("cabinet");
    g = nullptr;
}

// ---- exhaustive cabinet histories -----------------------------------------------------------------
// alphabet (16): alloc(obj), alloc(), free(#0..#4), update(#0..#2), clear, foreach{none}, foreach{free current},
// foreach{free another entry}, free(null token), update(null token).  #k = the (k mod n)-th of the n tokens the cabinet
// has issued so far in this history (live or stale, whichever it is by then); before the first alloc the operation is
// applied to the null token. The null token is Token() == a reset() token == (id 0, pos 0).
const int CABX_ALPHA = 16;

bool cabx_run(uint64_t idx, int depth, bool record, Ctx &c) {
    c = Ctx(); c.record = record; g = &c;
    trk::reset();
    bool nontrivial;
    {
        CabWorld w;
        uint64_t x = idx;
        for (int d = 0; d < depth && !c.failed; ++d) {
            int op = (int)(x % CABX_ALPHA); x /= CABX_ALPHA;
            c.sig.add((uint64_t)op);
            if (op == 0) w.op_alloc(true);
            else if (op == 1) w.op_alloc(false);
            else if (op == 14) w.op_free_stale(Token(), "null");
            else if (op == 15) { Token t = w.issued_order.empty() ? Token() : w.issued_order[0]; t.reset(); w.op_update_stale(t, "null"); }
            else if (op <= 9) {
                size_t k = op <= 6 ? (size_t)(op - 2) : (size_t)(op - 7);
                bool is_free = op <= 6;
                if (w.issued_order.empty()) {
                    // nothing issued yet: the null token; nothing may happen
                    Token nul;
                    if (is_free) w.op_free_stale(nul, "null"); else w.op_update_stale(nul, "null");
                } else {
                    Token t = w.issued_order[k % w.issued_order.size()];
                    bool is_live = w.live.count(keyof(t)) != 0;
                    if (is_free) { if (is_live) w.op_free_live(keyof(t)); else w.op_free_stale(t); }
                    else { if (is_live) w.op_update_live(keyof(t), true); else w.op_update_stale(t); }
                }
            }
            else if (op == 10) w.op_clear();
            else {
                int act = op == 11 ? CabWorld::V_NONE : op == 12 ? CabWorld::V_FREE_CURRENT : CabWorld::V_FREE_OTHER;
                w.op_foreach([&](size_t) { return act; }, [&](size_t n) { return n - 1; });
            }
            w.verify(nullptr, true);
        }
        if (!c.failed) w.verify_token_relations();
        nontrivial = w.saw_reuse || w.cleared_once;
    }
    check_no_lost_blocks("cabinet");
    g = nullptr;
    return nontrivial;
}

void cabinet_x_case(uint64_t idx, vh::Rng &, int depth) {
    Ctx c;
    bool nt = cabx_run(idx, depth, false, c);
    if (c.failed) { Ctx c2; cabx_run(idx, depth, true, c2); if (!c2.failed) vh::viol(c.fkey, c.fdetail + " (not reproduced on the recorded second pass)"); }
    CNTN("ops", (uint64_t)depth);
    vh::note_case(c.sig.h, nt);
}

// =============================================================================================
// ObjectPool
// =============================================================================================
struct Registry {
    struct Rec { size_t size; uint64_t serial; };
    std::map<const char *, Rec> live;    // address -> extent of every constructed-and-not-destroyed probe
    uint64_t ctors = 0, dtors = 0;
};
Registry *g_reg = nullptr;

void probe_ctor(const void *p, size_t size, uint64_t serial) {
    Harn h;
    Registry &R = *g_reg;
    ++R.ctors;
    const char *a = static_cast<const char *>(p);
    auto it = R.live.lower_bound(a);
    if (it != R.live.end() && it->first < a + size) {
        fail("pool/alloc/storage-still-in-use",
             vh::fmt("constructor #%llu ran on storage [%p,+%zu) that overlaps live object #%llu at %p",
                     (unsigned long long)serial, p, size, (unsigned long long)it->second.serial, (const void *)it->first));
        return;
    }
    if (it != R.live.begin()) {
        --it;
        if (it->first + it->second.size > a) {
            fail("pool/alloc/storage-still-in-use",
                 vh::fmt("constructor #%llu ran on storage [%p,+%zu) that overlaps live object #%llu at %p",
                         (unsigned long long)serial, p, size, (unsigned long long)it->second.serial, (const void *)it->first));
            return;
        }
    }
    R.live[a] = Registry::Rec{size, serial};
}
void probe_dtor(const void *p) {
    Harn h;
    Registry &R = *g_reg;
    ++R.dtors;
    auto it = R.live.find(static_cast<const char *>(p));
    if (it == R.live.end()) {
        fail("pool/free/destructor-on-dead-object", vh::fmt("a destructor ran on %p where no constructed object lives", p));
        return;
    }
    R.live.erase(it);
}

template <size_t PAD> struct Probe {
    uint64_t serial;
    const Probe *self;
    uint8_t fill;
    uint8_t pad[PAD];
    Probe() : Probe((uint64_t)0, (uint8_t)0x5a) {}
    Probe(uint64_t s, uint8_t f) : serial(s), self(this), fill(f) { memset(pad, f, PAD); probe_ctor(this, sizeof(*this), s); }
    Probe(std::unique_ptr<uint64_t> s, const uint8_t &f) : Probe(*s, f) {}    // move-only argument: perfect forwarding
    ~Probe() { probe_dtor(this); serial = ~serial; self = nullptr; memset(pad, 0xdd, PAD); }
    Probe(const Probe &) = delete;
    Probe &operator=(const Probe &) = delete;
    bool intact(uint64_t s, uint8_t f) const {
        if (serial != s || self != this || fill != f) return false;
        for (size_t i = 0; i < PAD; ++i) if (pad[i] != f) return false;
        return true;
    }
    static const char *name() { return PAD > 64 ? "Probe<big>" : "Probe<small>"; }
    static const bool kNested = false;
    static void prepare(void *, int) {}
};
//! one byte: smaller than the free-list link that the pool threads through parked blocks
struct Tiny {
    uint8_t fill;
    Tiny() : fill(0x5a) { probe_ctor(this, 1, 0); }
    Tiny(uint64_t, uint8_t f) : fill(f) { probe_ctor(this, 1, 0); }
    Tiny(std::unique_ptr<uint64_t>, const uint8_t &f) : fill(f) { probe_ctor(this, 1, 0); }
    ~Tiny() { probe_dtor(this); fill = 0xdd; }
    Tiny(const Tiny &) = delete;
    bool intact(uint64_t, uint8_t f) const { return fill == f; }
    static const char *name() { return "Tiny"; }
    static const bool kNested = false;
    static void prepare(void *, int) {}
};

//! A node whose constructor allocates its child from the SAME pool (chains of 1-4 nodes) and whose destructor gives the child
//! back: alloc() and free() are re-entered while the outer call is still running. The storage of a node counts as in use from
//! the first statement of its constructor.
struct Chain;
tbox::ObjectPool<Chain> *g_chain_pool = nullptr;   // pool the next top-level node is taken from (set by the world before the call)
int g_chain_depth = 0;                             // number of descendants the next top-level node creates
uint64_t g_chain_nested_allocs = 0, g_chain_nested_frees = 0;
struct Chain {
    struct Nested {};
    uint64_t serial;
    const Chain *self;
    tbox::ObjectPool<Chain> *owner;
    Chain *child;
    int level;
    uint8_t fill;
    uint8_t pad[19];
    Chain() : Chain((uint64_t)0, (uint8_t)0x5a, g_chain_depth, Nested()) {}
    Chain(uint64_t s, uint8_t f) : Chain(s, f, g_chain_depth, Nested()) {}
    Chain(std::unique_ptr<uint64_t> s, const uint8_t &f) : Chain(*s, f, g_chain_depth, Nested()) {}
    Chain(uint64_t s, uint8_t f, int lvl, Nested) : serial(s), self(this), owner(g_chain_pool), child(nullptr), level(lvl), fill(f) {
        memset(pad, f, sizeof pad);
        probe_ctor(this, sizeof(*this), s);
        if (lvl > 0 && !g->failed) {
            ++g_chain_nested_allocs;
            child = owner->alloc(s, f, lvl - 1, Nested());      // re-enters ObjectPool::alloc on the same pool
        }
    }
    ~Chain() {
        // after a violation nothing is re-entered any more (the links may be nonsense by then)
        if (child != nullptr && !g->failed) { ++g_chain_nested_frees; owner->free(child); }
        probe_dtor(this);
        serial = ~serial; self = nullptr; child = nullptr; memset(pad, 0xdd, sizeof pad);
    }
    Chain(const Chain &) = delete;
    Chain &operator=(const Chain &) = delete;
    bool intact(uint64_t s, uint8_t f) const {
        const Chain *n = this;
        for (int lvl = level; ; --lvl) {
            if (lvl < 0 || lvl > 3) return false;
            if (n->serial != s || n->self != n || n->fill != f || n->level != lvl || n->owner != owner) return false;
            for (size_t i = 0; i < sizeof n->pad; ++i) if (n->pad[i] != f) return false;
            if ((n->child != nullptr) != (lvl > 0)) return false;
            if (lvl == 0) return true;
            n = n->child;
        }
    }
    static const char *name() { return "Chain"; }
    static const bool kNested = true;
    static void prepare(void *pool, int depth) { g_chain_pool = static_cast<tbox::ObjectPool<Chain> *>(pool); g_chain_depth = depth; }
};

const size_t KEEP_INF = std::numeric_limits<size_t>::max();

template <typename T> struct PoolWorld {
    struct Item { T *p; uint64_t serial; uint8_t fill; size_t n; };     // n = objects built by that alloc (1 + descendants)
    struct P {
        std::unique_ptr<tbox::ObjectPool<T> > pool;
        size_t keep = KEEP_INF, parked = 0, peak_parked = 0, peak_live = 0, allocs = 0, frees = 0;
        size_t live_objs = 0;
        std::vector<Item> live;
    };
    std::vector<P> pools;
    uint64_t next_serial = 1;
    bool saw_reuse = false, saw_release = false, saw_parked_destroy = false;

    void make_pool(size_t i, size_t keep) {
        P &p = pools[i];
        { Lib l; if (keep == KEEP_INF) p.pool.reset(new tbox::ObjectPool<T>()); else p.pool.reset(new tbox::ObjectPool<T>(keep)); }
        p.keep = keep; p.parked = p.peak_parked = p.peak_live = p.allocs = p.frees = p.live_objs = 0;
        g->sig.add(20); g->sig.add(keep);
        logop(keep == KEEP_INF ? vh::fmt("p%zu=Pool()", i) : vh::fmt("p%zu=Pool(%zu)", i, keep));
        vh::counter(keep == KEEP_INF ? "pool_keep_unbounded" : keep == 0 ? "pool_keep_0" : keep <= 3 ? "pool_keep_1to3" : "pool_keep_64");
    }

    //! depth: number of descendants the constructor allocates from the same pool (only for the nested probe type)
    void op_alloc(size_t i, int ctor_kind, uint8_t fill, int depth = 0) {
        P &p = pools[i];
        if (!T::kNested) depth = 0;
        const size_t n = (size_t)depth + 1;
        const size_t from_list_n = p.parked < n ? p.parked : n;
        T::prepare(p.pool.get(), depth);
        uint64_t serial = next_serial++;
        uint64_t m0 = trk::mallocs, c0 = g_reg->ctors, d0 = g_reg->dtors;
        T *o = nullptr;
        static const bool trace = vh::st().args.num("trace-heap", 0) != 0;
        if (trace) trk::trace_budget = (int)(n - from_list_n);
        if (ctor_kind == 0) { fill = 0x5a; serial = 0; Lib l; o = p.pool->alloc(); }
        else if (ctor_kind == 1) { Lib l; o = p.pool->alloc(serial, fill); }
        else { std::unique_ptr<uint64_t> s(new uint64_t(serial)); Lib l; o = p.pool->alloc(std::move(s), fill); }
        uint64_t dm = trk::mallocs - m0;
        trk::trace_budget = -1;
        g->sig.add(21); g->sig.add(i); g->sig.add((uint64_t)ctor_kind);
        g->sig.add((uint64_t)depth);
        logop(depth ? vh::fmt("p%zu.alloc[%d]x%zu", i, ctor_kind, n) : vh::fmt("p%zu.alloc[%d]", i, ctor_kind));
        CNTN("pool_alloc", n);
        p.allocs += n;
        if (depth > 0) {
            CNT("pool_nested_alloc_in_ctor");
            if (p.parked > 0) CNT("pool_nested_alloc_in_ctor_with_parked_blocks");
            if (p.parked >= n) CNT("pool_nested_chain_built_entirely_from_parked_blocks");
        }
        if (g->failed) return;
        CHK(o != nullptr, "pool/alloc/null", "alloc returned a null pointer");
        if (g->failed) return;
        CHK(g_reg->ctors == c0 + n && g_reg->dtors == d0, "pool/alloc/constructor-count",
            "alloc of %zu object(s) ran %llu constructors and %llu destructors of %s (exactly one constructor per alloc expected)",
            n, (unsigned long long)(g_reg->ctors - c0), (unsigned long long)(g_reg->dtors - d0), T::name());
        if (g->failed) return;
        CHK(g_reg->live.count(reinterpret_cast<const char *>(o)), "pool/alloc/constructed-elsewhere",
            "alloc returned %p but the constructor did not run there", (void *)o);
        CHK(((uintptr_t)o % alignof(T)) == 0, "pool/alloc/misaligned", "alloc returned %p, not aligned to %zu", (void *)o, alignof(T));
        if (g->failed) return;
        CHK(o->intact(serial, fill), "pool/alloc/arguments-not-forwarded", "the object constructed by alloc does not hold the values passed in");
        if (trk::available)
            CHK(dm == n - from_list_n, "pool/retention/alloc-heap-traffic",
                "alloc of %zu object(s) with %zu parked block(s) made %llu heap allocation(s); the documented behaviour is to take a parked block when there is one and malloc only otherwise",
                n, p.parked, (unsigned long long)dm);
        if (from_list_n) { p.parked -= from_list_n; CNTN("pool_alloc_from_free_list", from_list_n); saw_reuse = true; }
        if (n > from_list_n) CNTN("pool_alloc_from_heap", n - from_list_n);
        p.live.push_back(Item{o, serial, fill, n});
        p.live_objs += n;
        if (p.live_objs > p.peak_live) p.peak_live = p.live_objs;
        CMAX("max_pool_live", p.live_objs);
    }

    void op_free(size_t i, size_t which) {
        P &p = pools[i];
        Item it = p.live[which];
        p.live.erase(p.live.begin() + (long)which);
        CHK(it.p->intact(it.serial, it.fill), "pool/live-object/overwritten", "object #%llu at %p was modified while it was live",
            (unsigned long long)it.serial, (void *)it.p);
        if (g->failed) return;
        uint64_t f0 = trk::frees, m0 = trk::mallocs, c0 = g_reg->ctors, d0 = g_reg->dtors;
        const size_t n = it.n;
        const size_t room = p.keep - p.parked;                  // parked <= keep always holds in the model
        const size_t parks_n = room < n ? room : n;
        T::prepare(p.pool.get(), 0);
        { Lib l; p.pool->free(it.p); }
        uint64_t df = trk::frees - f0, dm = trk::mallocs - m0;
        g->sig.add(22); g->sig.add(i); g->sig.add(which);
        logop(vh::fmt("p%zu.free(#%llu)", i, (unsigned long long)it.serial));
        CNTN("pool_free", n);
        p.frees += n;
        p.live_objs -= n;
        if (n > 1) CNT("pool_nested_free_in_dtor");
        if (g->failed) return;
        CHK(g_reg->dtors == d0 + n && g_reg->ctors == c0, "pool/free/destructor-count",
            "free of %zu object(s) ran %llu destructors and %llu constructors of %s (exactly one destructor per free expected)",
            n, (unsigned long long)(g_reg->dtors - d0), (unsigned long long)(g_reg->ctors - c0), T::name());
        if (g->failed) return;
        CHK(!g_reg->live.count(reinterpret_cast<const char *>(it.p)), "pool/free/wrong-object-destroyed",
            "free(%p) ran a destructor, but not the one of the object passed in", (void *)it.p);
        if (trk::available)
            CHK(df == n - parks_n && dm == 0, "pool/retention/free-heap-traffic",
                "free of %zu object(s) with %zu parked block(s) and a retention limit of %zu released %llu heap block(s) (expected %zu)",
                n, p.parked, p.keep, (unsigned long long)df, n - parks_n);
        if (parks_n) { p.parked += parks_n; CNTN("pool_free_parked", parks_n); if (p.parked > p.peak_parked) p.peak_parked = p.parked; }
        if (n > parks_n) { CNTN("pool_free_released", n - parks_n); saw_release = true; }
        CMAX("max_pool_parked", p.parked);
    }

    void op_destroy_pool(size_t i) {
        P &p = pools[i];
        while (!p.live.empty() && !g->failed) op_free(i, p.live.size() - 1);
        if (g->failed) return;
        uint64_t f0 = trk::frees;
        { Lib l; p.pool.reset(); }
        uint64_t df = trk::frees - f0;
        g->sig.add(23); g->sig.add(i);
        logop(vh::fmt("delete p%zu", i));
        if (p.parked) { CNT("pool_destroy_with_parked"); saw_parked_destroy = true; }
        if (trk::available)
            CHK(df == p.parked + 1, "pool/destroy/parked-blocks-not-released",
                "destroying a pool with %zu parked block(s) released %llu heap block(s) (the pool object itself is one)", p.parked, (unsigned long long)df);
        p.parked = 0;
    }

    void verify() {
        if (g->failed) return;
        size_t total_live = 0;
        for (size_t i = 0; i < pools.size(); ++i) {
            P &p = pools[i];
            if (!p.pool) continue;
            for (auto &it : p.live) {
                if (!it.p->intact(it.serial, it.fill)) {
                    fail("pool/live-object/overwritten", vh::fmt("object #%llu at %p (pool %zu) was modified while it was live",
                                                                 (unsigned long long)it.serial, (void *)it.p, i));
                    return;
                }
            }
            total_live += p.live_objs;
            tbox::ObjectPoolStat s;
            { Lib l; s = p.pool->getStat(); }
            CHK(s.total_alloc_times == p.allocs && s.total_free_times == p.frees, "pool/stat/call-counts",
                "getStat(): alloc times %zu free times %zu; %zu allocs and %zu frees were made", s.total_alloc_times, s.total_free_times, p.allocs, p.frees);
            CHK(s.peak_alloc_number == p.peak_live, "pool/stat/peak-alloc", "getStat(): peak_alloc_number=%zu, the most objects live at once was %zu",
                s.peak_alloc_number, p.peak_live);
            CHK(s.peak_free_number == p.peak_parked, "pool/stat/peak-free",
                "getStat(): peak_free_number=%zu, with a retention limit of %zu at most %zu block(s) were ever parked", s.peak_free_number, p.keep, p.peak_parked);
        }
        CHK(g_reg->live.size() == total_live, "pool/registry/live-count", "%zu probe objects are constructed, %zu are held by the model",
            g_reg->live.size(), total_live);
        CHK(g_reg->ctors - g_reg->dtors == total_live, "pool/registry/ctor-dtor-balance", "constructors %llu - destructors %llu != live %zu",
            (unsigned long long)g_reg->ctors, (unsigned long long)g_reg->dtors, total_live);
    }
};

template <typename T> void pool_case_t(vh::Rng &r, Ctx &c) {
    static const size_t keeps[] = {0, 1, 2, 3, 64, KEEP_INF};
    Registry reg; g_reg = &reg;
    {
        PoolWorld<T> w;
        size_t npools = 1 + r.below(2);
        w.pools.resize(npools);
        for (size_t i = 0; i < npools; ++i) w.make_pool(i, r.pick(keeps));
        int nops = 40 + (int)r.below(160);
        static const size_t caps[] = {2, 5, 12, 40, 90};
        size_t cap = r.pick(caps);
        int phase = 1, phase_left = 0;
        for (int k = 0; k < nops && !c.failed; ++k) {
            if (phase_left-- <= 0) { phase = (int)r.below(3); phase_left = 5 + (int)r.below(30); }
            size_t i = r.below(npools);
            auto &p = w.pools[i];
            if (!p.pool) { w.make_pool(i, r.pick(keeps)); w.verify(); continue; }
            int alloc_w = phase == 1 ? 70 : phase == 2 ? 20 : 45;
            int x = (int)r.below(100);
            if (x < 2) {
                w.op_destroy_pool(i);
            } else if (x < 2 + alloc_w && p.live.size() < cap) {
                w.op_alloc(i, (int)r.below(3), r.byte(), (int)r.below(4));
            } else if (!p.live.empty()) {
                size_t which;
                switch (r.below(3)) { case 0: which = p.live.size() - 1; break; case 1: which = 0; break; default: which = r.below(p.live.size()); }
                w.op_free(i, which);
            } else {
                w.op_alloc(i, (int)r.below(3), r.byte(), (int)r.below(4));
            }
            w.verify();
        }
        for (size_t i = 0; i < npools && !c.failed; ++i) if (w.pools[i].pool) w.op_destroy_pool(i);
        w.verify();
        if (c.failed && T::kNested) {
            // the links between nodes may be nonsense now: do not run any more library code on them. Whatever is left is
            // deliberately abandoned and hidden from LeakSanitizer (the violation has been reported).
            for (auto &kv : reg.live) __lsan_ignore_object(kv.first);
            for (size_t k = 0; k < trk::used_n; ++k) {      // every block the pool allocated in this case and has not released
                const volatile void *b = trk::tab[trk::used_idx[k]];
                if (b != nullptr && b != trk::TOMB) __lsan_ignore_object(const_cast<const void *>(b));
            }
            for (auto &p : w.pools) { if (p.pool) __lsan_ignore_object(p.pool.release()); p.live.clear(); }
        } else if (c.failed) {
            // best effort: give the remaining objects back without consulting the (possibly broken) pool state again
            for (auto &p : w.pools) { for (auto &it : p.live) if (p.pool && reg.live.count(reinterpret_cast<const char *>(it.p))) { Lib l; p.pool->free(it.p); } p.live.clear(); }
        }
        CNTN("ops", (uint64_t)nops);
        bool nt = w.saw_reuse && (w.saw_release || w.saw_parked_destroy);
        vh::note_case(c.sig.h, nt);
        if (!c.failed && nt && vh::want_sample(2))
            vh::sample(std::string("{\"mode\":\"pool\",\"type\":\"") + T::name() + "\",\"script\":" + vh::jstr(c.script.substr(0, 700)) + "}", 2);
        { Lib l; for (auto &p : w.pools) p.pool.reset(); }
    }
    g_reg = nullptr;
}

void pool_case(uint64_t, vh::Rng &r) {
    Ctx c; g = &c;
    trk::reset();
    switch (r.below(4)) {
        case 0: c.sig.add(100); CNT("pool_type_tiny"); pool_case_t<Tiny>(r, c); break;
        case 1: c.sig.add(101); CNT("pool_type_small"); pool_case_t<Probe<7> >(r, c); break;
        case 2: c.sig.add(102); CNT("pool_type_big"); pool_case_t<Probe<200> >(r, c); break;
        default: c.sig.add(103); CNT("pool_type_nested_chain"); pool_case_t<Chain>(r, c); break;
    }
    check_no_lost_blocks("pool");
    g = nullptr;
}

// =============================================================================================
// Fd
// =============================================================================================
int g_saved_stdout = -1, g_saved_stderr = -1;    // duplicates taken at start-up (see FdWorld::verify)

struct FdWorld {
    //! K_NEG_FUNC: a negative value ("no descriptor") together with a recording close function: must never be closed
    enum Kind { K_FAKE_FUNC = 0, K_REAL_DEFAULT = 1, K_REAL_FUNC = 2, K_INVALID = 3, K_NEG_FUNC = 4 };
    struct Desc {
        Kind kind; int fdnum; int refs; bool open;
        ino_t ino; int func_calls; int func_wrong_fd; bool closed_explicitly;
        bool never_open;      // negative value: there is nothing to close, ever
    };
    //! value handed to Fd for the next K_FAKE_FUNC / K_NEG_FUNC descriptor (set by the case driver); values may repeat
    //! between descriptors - each recording close function knows which descriptor record it belongs to
    std::function<int(int)> pick_fake_value;
    std::function<int(int)> pick_negative_value;
    bool want_stdin_slot = false;         // next real descriptor: try to make it descriptor number 0
    int saved_stdin = -1;
    bool used_small_fake = false;         // a fake value 1 or 2 is in play: watch the real stdout / stderr
    std::vector<std::unique_ptr<Fd> > var;
    std::vector<int> vd;                  // per variable: index into descs, or -1 when the handle holds nothing
    std::vector<Desc> descs;
    std::vector<int> closed_now;          // descriptors the model says the last operation closed
    int next_fake = 1000000;
    bool saw_last_copy_close = false, saw_explicit_close_shared = false, saw_assign_release = false, saw_self = false;
    size_t max_refs = 0;

    explicit FdWorld(size_t n) : var(n), vd(n, -1) {}
    ~FdWorld() {
        if (saved_stdin >= 0) { dup2(saved_stdin, 0); ::close(saved_stdin); saved_stdin = -1; }   // give descriptor 0 back
    }

    std::string vname(size_t i) const { return vh::fmt("v%zu", i); }

    Fd::CloseFunc recorder(int d, bool really_close) {
        return [this, d, really_close](int fd) {
            Harn h;
            Desc &D = descs[(size_t)d];
            ++D.func_calls;
            if (fd != D.fdnum) ++D.func_wrong_fd;
            if (really_close) ::close(fd);
        };
    }

    //! create a descriptor record; returns its index. Real kinds open a pipe and keep the read end.
    int new_desc(Kind k) {
        Desc D; D.kind = k; D.refs = 1; D.open = true; D.ino = 0; D.func_calls = 0; D.func_wrong_fd = 0; D.closed_explicitly = false;
        D.never_open = false;
        if (k == K_FAKE_FUNC) {
            D.fdnum = pick_fake_value ? pick_fake_value((int)descs.size()) : next_fake++;
            if (D.fdnum < 0) D.fdnum = next_fake++;
            if (D.fdnum == 0) CNT("fd_value_zero_desc");
            else if (D.fdnum <= 2) { CNT("fd_value_one_or_two_desc"); used_small_fake = true; }
            else if (D.fdnum == std::numeric_limits<int>::max()) CNT("fd_value_int_max_desc");
        }
        else if (k == K_INVALID) { D.fdnum = -1; D.open = false; D.never_open = true; }
        else if (k == K_NEG_FUNC) {
            D.fdnum = pick_negative_value ? pick_negative_value((int)descs.size()) : -1;
            if (D.fdnum >= 0) D.fdnum = -1;
            D.open = false; D.never_open = true;
            CNT("fd_negative_value_with_close_func");
        }
        else {
            // optionally free descriptor number 0 first, so that the pipe's read end becomes descriptor 0 (restored in ~FdWorld)
            if (want_stdin_slot && saved_stdin < 0) {
                int sv = dup(0);
                if (sv >= 0) { saved_stdin = sv; ::close(0); }
            }
            want_stdin_slot = false;
            int p[2];
            if (pipe(p) != 0) { fprintf(stderr, "VH-FATAL: pipe-failed errno=%d\n", errno); abort(); }
            ::close(p[1]);
            struct stat st; fstat(p[0], &st);
            D.fdnum = p[0]; D.ino = st.st_ino;
            if (D.fdnum == 0) CNT("fd_value_zero_real_desc");
        }
        descs.push_back(D);
        vh::counter(k == K_FAKE_FUNC ? "fd_desc_fake_func" : k == K_REAL_DEFAULT ? "fd_desc_real_default" : k == K_REAL_FUNC ? "fd_desc_real_func" :
                    k == K_NEG_FUNC ? "fd_desc_negative_func" : "fd_desc_invalid");
        return (int)descs.size() - 1;
    }

    void model_release(int d, bool by_assign) {
        if (d < 0) return;
        Desc &D = descs[(size_t)d];
        --D.refs;
        if (D.refs == 0 && D.open) {
            D.open = false; closed_now.push_back(d);
            saw_last_copy_close = true; CNT("fd_close_on_last_release");
            if (by_assign) { saw_assign_release = true; CNT("fd_close_by_assignment"); }
            if (D.fdnum == 0) CNT("fd_value_zero_released_by_last_copy");
            else if (D.fdnum <= 2) CNT("fd_value_one_or_two_released_by_last_copy");
            else if (D.fdnum == std::numeric_limits<int>::max()) CNT("fd_value_int_max_released_by_last_copy");
        }
    }
    void model_acquire(int d) {
        if (d < 0) return;
        Desc &D = descs[(size_t)d];
        ++D.refs;
        if ((size_t)D.refs > max_refs) max_refs = (size_t)D.refs;
        CMAX("max_fd_refs", (uint64_t)D.refs);
    }

    // ---- operations (slot i must be empty for the construct_* ones) ----------------------------------
    Fd *make(Kind k, int &d_out) {
        d_out = new_desc(k);
        Desc &D = descs[(size_t)d_out];
        Lib l;
        if (k == K_FAKE_FUNC || k == K_NEG_FUNC) return new Fd(D.fdnum, recorder(d_out, false));
        if (k == K_REAL_FUNC) return new Fd(D.fdnum, recorder(d_out, true));
        return new Fd(D.fdnum);
    }
    void op_new_default(size_t i) {
        { Lib l; var[i].reset(new Fd()); } vd[i] = -1;
        g->sig.add(30); g->sig.add(i); logop(vname(i) + "=Fd()");
    }
    void op_new(size_t i, Kind k) {
        int d; Fd *f = make(k, d);
        var[i].reset(f); vd[i] = d;
        g->sig.add(31); g->sig.add(i); g->sig.add((uint64_t)k);
        logop(vh::fmt("v%zu=Fd(d%d:%s%d)", i, d, k == K_FAKE_FUNC ? "fake" : k == K_REAL_FUNC ? "pipe+func" : k == K_INVALID ? "" : k == K_NEG_FUNC ? "neg+func" : "pipe", descs[(size_t)d].fdnum));
    }
    void op_copy_construct(size_t i, size_t j) {
        { Lib l; var[i].reset(new Fd(*var[j])); }
        vd[i] = vd[j]; model_acquire(vd[i]);
        g->sig.add(32); g->sig.add(i); g->sig.add(j); logop(vh::fmt("v%zu=Fd(v%zu)", i, j));
        CNT("fd_copy_construct");
    }
    void op_move_construct(size_t i, size_t j) {
        { Lib l; var[i].reset(new Fd(std::move(*var[j]))); }
        vd[i] = vd[j]; vd[j] = -1;
        g->sig.add(33); g->sig.add(i); g->sig.add(j); logop(vh::fmt("v%zu=Fd(move(v%zu))", i, j));
        CNT("fd_move_construct");
    }
    void op_copy_assign(size_t i, size_t j) {
        { Lib l; Fd &dst = *var[i]; const Fd &src = *var[j]; dst = src; }
        if (i != j) {
            int old = vd[i];
            // the code releases first and shares afterwards; when both already share one record the count never reaches zero
            if (old == vd[j] && old >= 0) { CNT("fd_assign_same_record"); }
            else { model_release(old, true); vd[i] = vd[j]; model_acquire(vd[i]); }
        } else { saw_self = true; CNT("fd_self_assign"); }
        g->sig.add(34); g->sig.add(i); g->sig.add(j); logop(vh::fmt("v%zu=v%zu", i, j));
        CNT("fd_copy_assign");
    }
    void op_move_assign(size_t i, size_t j) {
        { Lib l; Fd &dst = *var[i]; Fd &src = *var[j]; dst = std::move(src); }
        if (i != j) {
            int old = vd[i];
            vd[i] = vd[j]; vd[j] = -1;
            model_release(old, true);       // when old == vd[i] this only drops one of several references
        } else { saw_self = true; CNT("fd_self_assign"); }
        g->sig.add(35); g->sig.add(i); g->sig.add(j); logop(vh::fmt("v%zu=move(v%zu)", i, j));
        CNT("fd_move_assign");
    }
    void op_assign_temporary(size_t i, Kind k) {
        int d = new_desc(k);
        Desc &D = descs[(size_t)d];
        {
            Lib l;
            if (k == K_FAKE_FUNC || k == K_NEG_FUNC) *var[i] = Fd(D.fdnum, recorder(d, false));
            else if (k == K_REAL_FUNC) *var[i] = Fd(D.fdnum, recorder(d, true));
            else *var[i] = Fd(D.fdnum);
        }
        int old = vd[i]; vd[i] = d; model_release(old, true);
        g->sig.add(36); g->sig.add(i); g->sig.add((uint64_t)k); logop(vh::fmt("v%zu=Fd(d%d)", i, d));
        CNT("fd_move_assign");
    }
    void op_swap(size_t i, size_t j) {
        { Lib l; var[i]->swap(*var[j]); }
        std::swap(vd[i], vd[j]);
        g->sig.add(37); g->sig.add(i); g->sig.add(j); logop(vh::fmt("v%zu.swap(v%zu)", i, j));
        CNT("fd_swap");
    }
    void op_reset(size_t i) {
        { Lib l; var[i]->reset(); }
        int old = vd[i]; vd[i] = -1; model_release(old, false);
        g->sig.add(38); g->sig.add(i); logop(vh::fmt("v%zu.reset()", i));
        CNT("fd_reset");
    }
    void op_close(size_t i) {
        { Lib l; var[i]->close(); }
        if (vd[i] >= 0) {
            Desc &D = descs[(size_t)vd[i]];
            if (D.open) {
                D.open = false; D.closed_explicitly = true; closed_now.push_back(vd[i]);
                CNT("fd_explicit_close");
                if (D.fdnum == 0) CNT("fd_value_zero_explicit_close");
                if (D.refs > 1) { saw_explicit_close_shared = true; CNT("fd_explicit_close_while_shared"); }
            } else CNT("fd_close_again_noop");
        }
        g->sig.add(39); g->sig.add(i); logop(vh::fmt("v%zu.close()", i));
    }
    void op_destroy(size_t i) {
        { Lib l; var[i].reset(); }
        int old = vd[i]; vd[i] = -1; model_release(old, false);
        g->sig.add(40); g->sig.add(i); logop(vh::fmt("delete v%zu", i));
        CNT("fd_destroy");
    }

    // ---- after-every-operation check -----------------------------------------------------------------
    void verify() {
        if (g->failed) return;
        for (size_t i = 0; i < var.size(); ++i) {
            if (!var[i]) continue;
            int expect = -1;
            if (vd[i] >= 0 && descs[(size_t)vd[i]].open) expect = descs[(size_t)vd[i]].fdnum;
            // what get()/isNull() answer for a stored negative value other than -1 is not pinned by the property: not judged
            if (vd[i] >= 0 && descs[(size_t)vd[i]].never_open && descs[(size_t)vd[i]].fdnum != -1) continue;
            int got; bool isnull;
            { Lib l; got = var[i]->get(); isnull = var[i]->isNull(); }
            CHK(got == expect, "fd/get/wrong-descriptor", "v%zu.get()=%d, the model says %d", i, got, expect);
            CHK(isnull == (expect == -1), "fd/isNull/mismatch", "v%zu.isNull()=%d while the handle should refer to %d", i, (int)isnull, expect);
            if (g->failed) return;
        }
        // descriptors the last operation must have closed: gone right now
        for (int d : closed_now) {
            Desc &D = descs[(size_t)d];
            if (D.kind == K_REAL_DEFAULT || D.kind == K_REAL_FUNC) {
                errno = 0;
                int rc = fcntl(D.fdnum, F_GETFD);
                CHK(rc == -1 && errno == EBADF, "fd/close/descriptor-left-open",
                    "descriptor d%d (fd %d) should have been closed by the last operation (%s) but is still open", d, D.fdnum,
                    D.closed_explicitly ? "explicit close()" : "last handle released");
            }
        }
        closed_now.clear();
        if (g->failed) return;
        if (used_small_fake) {
            // fake values 1 and 2 must only ever reach the recording close function; if the library really close()d them the
            // report channel is gone: put it back first, then report
            for (int fdn = 1; fdn <= 2; ++fdn) {
                int sv = fdn == 1 ? g_saved_stdout : g_saved_stderr;
                if (sv >= 0 && fcntl(fdn, F_GETFD) == -1 && errno == EBADF) {
                    dup2(sv, fdn);
                    fail("fd/close/system-close-on-injected-descriptor",
                         vh::fmt("descriptor %d of the process was closed: the library called ::close() on a value that came with its own close function", fdn));
                    return;
                }
            }
        }
        for (size_t d = 0; d < descs.size(); ++d) {
            Desc &D = descs[d];
            if (D.kind == K_NEG_FUNC) {
                if (D.func_calls != 0) {
                    fail("fd/close/negative-value-closed", vh::fmt("the close function of d%zu ran %d time(s) although the handle was built on the "
                                                                    "negative value %d, which is no descriptor", d, D.func_calls, D.fdnum));
                    return;
                }
                continue;
            }
            if (D.kind == K_FAKE_FUNC || D.kind == K_REAL_FUNC) {
                int expect = D.open ? 0 : 1;
                if (D.func_calls != expect) {
                    if (D.func_calls > expect && D.open)
                        fail("fd/close/closed-early", vh::fmt("the close function of d%zu (fd %d) ran while %d handle(s) still share it and close() was never called",
                                                               d, D.fdnum, D.refs));
                    else if (D.func_calls > 1)
                        fail("fd/close/closed-twice", vh::fmt("the close function of d%zu (fd %d) ran %d times", d, D.fdnum, D.func_calls));
                    else
                        fail("fd/close/never-closed", vh::fmt("d%zu (fd %d): no handle is left (or close() was called) but the close function never ran", d, D.fdnum));
                    return;
                }
                CHK(D.func_wrong_fd == 0, "fd/close/wrong-descriptor-passed", "the close function of d%zu was given a descriptor other than %d", d, D.fdnum);
            }
            if ((D.kind == K_REAL_DEFAULT || D.kind == K_REAL_FUNC) && D.open) {
                struct stat st;
                int rc = fstat(D.fdnum, &st);
                if (rc != 0 || st.st_ino != D.ino) {
                    fail("fd/close/closed-early", vh::fmt("pipe descriptor d%zu (fd %d) is %s while %d handle(s) still share it and close() was never called",
                                                           d, D.fdnum, rc != 0 ? "closed" : "a different file now", D.refs));
                    return;
                }
            }
        }
    }

    void finish() {
        // destroy every handle: afterwards every descriptor must have been closed exactly once
        for (size_t i = 0; i < var.size() && !g->failed; ++i)
            if (var[i]) { op_destroy(i); verify(); }
        if (g->failed) {
            // clean up without judging: drop the handles, then close whatever the model still believes open
            for (auto &v : var) { Lib l; v.reset(); }
            for (auto &D : descs) if ((D.kind == K_REAL_DEFAULT || D.kind == K_REAL_FUNC) && D.open) ::close(D.fdnum);
            return;
        }
        for (size_t d = 0; d < descs.size(); ++d)
            CHK(!descs[d].open, "fd/model/open-at-end", "model bug: d%zu still open with no handles", d);
    }

    bool nontrivial() const { return saw_last_copy_close && max_refs >= 3 && (saw_explicit_close_shared || saw_assign_release); }
};

void fd_case(uint64_t, vh::Rng &r) {
    Ctx c; g = &c;
    trk::reset();
    {
        size_t nv = 2 + r.below(5);   // 2..6 handle variables
        FdWorld w(nv);
        int nops = 30 + (int)r.below(120);
        // descriptor values for the recording close functions: the boundary values first, 0 most often
        w.pick_fake_value = [&](int) -> int {
            static const int vals[] = {0, 0, 0, 1, 2, 3, 12, 13, 255, 1023, 1024, 65535, std::numeric_limits<int>::max(), -1 /* unique */, -1};
            return r.pick(vals);
        };
        w.pick_negative_value = [&](int) -> int {
            static const int vals[] = {-1, -1, -2, -100, std::numeric_limits<int>::min()};
            return r.pick(vals);
        };
        const bool stdin_case = r.chance(1, 4);     // in a quarter of the cases one real pipe end gets descriptor number 0
        bool stdin_done = false;
        auto any_kind = [&]() -> FdWorld::Kind {
            FdWorld::Kind k;
            switch (r.below(9)) { case 0: case 1: case 2: k = FdWorld::K_FAKE_FUNC; break; case 3: case 4: k = FdWorld::K_REAL_DEFAULT; break;
                                  case 5: case 6: k = FdWorld::K_REAL_FUNC; break; case 7: k = FdWorld::K_NEG_FUNC; break;
                                  default: k = r.chance(1, 3) ? FdWorld::K_INVALID : FdWorld::K_FAKE_FUNC; break; }
            if (stdin_case && !stdin_done && (k == FdWorld::K_REAL_DEFAULT || k == FdWorld::K_REAL_FUNC)) { w.want_stdin_slot = true; stdin_done = true; }
            return k;
        };
        for (int k = 0; k < nops && !c.failed; ++k) {
            size_t i = r.below(nv), j = r.below(nv);
            if (!w.var[i]) {
                // empty slot: construct something there
                int x = (int)r.below(10);
                if (x < 1) w.op_new_default(i);
                else if (x < 4 || !w.var[j]) w.op_new(i, any_kind());
                else if (x < 8) w.op_copy_construct(i, j);
                else w.op_move_construct(i, j);
            } else {
                if (!w.var[j]) j = i;
                if (j == i) for (size_t q = 1; q < nv; ++q) if (w.var[(i + q) % nv]) { j = (i + q) % nv; break; }   // prefer a distinct partner
                int x = (int)r.below(100);
                if (x < 30) w.op_copy_assign(i, r.chance(1, 12) ? i : j);
                else if (x < 48) w.op_move_assign(i, r.chance(1, 12) ? i : j);
                else if (x < 56) w.op_assign_temporary(i, any_kind());
                else if (x < 66) w.op_swap(i, j);
                else if (x < 76) w.op_reset(i);
                else if (x < 84) w.op_close(i);
                else w.op_destroy(i);
            }
            w.verify();
        }
        w.finish();
        CNTN("ops", (uint64_t)nops);
        vh::note_case(c.sig.h, w.nontrivial());
        if (!c.failed && w.nontrivial() && vh::want_sample(2))
            vh::sample("{\"mode\":\"fd\",\"script\":" + vh::jstr(c.script.substr(0, 700)) + "}", 2);
    }
    check_no_lost_blocks("fd");
    g = nullptr;
}

// ---- exhaustive Fd histories: 3 handles, all start as Fd() -----------------------------------------
// (the k-th descriptor created in a history has the value 0, 1, INT_MAX, 2, 12 for k = 0..4)
// alphabet (36): v_i = Fd(new fake descriptor, recorder) [3]; v_i = v_j [9]; v_i = move(v_j) [9]; swap(v_i,v_j) i<j [3];
// v_i.reset() [3]; v_i.close() [3]; delete v_i and copy-construct it anew from v_j, i != j [6]
const int FDX_ALPHA = 36;

bool fdx_run(uint64_t idx, int depth, bool record, Ctx &c) {
    c = Ctx(); c.record = record; g = &c;
    trk::reset();
    bool nt;
    {
        FdWorld w(3);
        // the n-th descriptor of a history gets the n-th of these values: 0 for the first, so every history exercises it
        w.pick_fake_value = [](int n) -> int {
            static const int vals[] = {0, 1, std::numeric_limits<int>::max(), 2, 12};
            return n < 5 ? vals[n] : -1;
        };
        for (size_t i = 0; i < 3; ++i) w.op_new_default(i);
        uint64_t x = idx;
        for (int d = 0; d < depth && !c.failed; ++d) {
            int op = (int)(x % FDX_ALPHA); x /= FDX_ALPHA;
            if (op < 3) w.op_assign_temporary((size_t)op, FdWorld::K_FAKE_FUNC);
            else if (op < 12) w.op_copy_assign((size_t)(op - 3) / 3, (size_t)(op - 3) % 3);
            else if (op < 21) w.op_move_assign((size_t)(op - 12) / 3, (size_t)(op - 12) % 3);
            else if (op < 24) { static const int a[3] = {0, 0, 1}, b[3] = {1, 2, 2}; w.op_swap((size_t)a[op - 21], (size_t)b[op - 21]); }
            else if (op < 27) w.op_reset((size_t)(op - 24));
            else if (op < 30) w.op_close((size_t)(op - 27));
            else {
                int q = op - 30; size_t i = (size_t)(q / 2), j = (size_t)(q % 2); if (j >= i) ++j;
                w.op_destroy(i); w.verify(); if (!c.failed) w.op_copy_construct(i, j);
            }
            w.verify();
        }
        w.finish();
        nt = w.saw_last_copy_close && w.max_refs >= 2;
    }
    check_no_lost_blocks("fd");
    g = nullptr;
    return nt;
}

void fd_x_case(uint64_t idx, vh::Rng &, int depth) {
    Ctx c;
    bool nt = fdx_run(idx, depth, false, c);
    if (c.failed) { Ctx c2; fdx_run(idx, depth, true, c2); if (!c2.failed) vh::viol(c.fkey, c.fdetail + " (not reproduced on the recorded second pass)"); }
    CNTN("ops", (uint64_t)depth);
    vh::note_case(c.sig.h, nt);
}

// =============================================================================================
// LifetimeTag / Watcher
// =============================================================================================
struct LtWorld {
    typedef LifetimeTag::Watcher Watcher;
    std::vector<std::unique_ptr<LifetimeTag> > tag;
    std::vector<uint64_t> tag_id;             // identity of the tag in each slot (0 = none)
    std::vector<std::unique_ptr<Watcher> > wat;
    std::vector<uint64_t> wat_of;             // identity of the tag each watcher observes (0 = observes nothing)
    std::set<uint64_t> alive;
    uint64_t next_id = 1;
    bool saw_outlive = false, saw_tag_dies_first = false;

    LtWorld(size_t nt, size_t nw) : tag(nt), tag_id(nt, 0), wat(nw), wat_of(nw, 0) {}

    void verify() {
        if (g->failed) return;
        for (size_t i = 0; i < wat.size(); ++i) {
            if (!wat[i]) continue;
            bool expect = wat_of[i] != 0 && alive.count(wat_of[i]) != 0;
            bool a, b;
            { Lib l; a = wat[i]->isAlive(); b = bool(*wat[i]); }
            if (a != expect || b != expect) {
                fail(expect ? "lifetime/watcher/false-while-tag-lives" : "lifetime/watcher/true-after-tag-died",
                     vh::fmt("watcher w%zu reports isAlive()=%d bool=%d; the tag it observes is %s", i, (int)a, (int)b,
                             wat_of[i] == 0 ? "none" : expect ? "alive" : "destroyed"));
                return;
            }
            if (wat_of[i] != 0 && !expect) { saw_outlive = true; CNT("lt_watcher_outlives_tag"); }
        }
    }
};

void lifetime_case(uint64_t, vh::Rng &r) {
    Ctx c; g = &c;
    trk::reset();
    const bool null_copy = vh::st().args.num("null-copy", 0) != 0;   // probe only, see findings/c08.md
    {
        LtWorld w(1 + r.below(3), 2 + r.below(5));
        int nops = 30 + (int)r.below(100);
        for (int k = 0; k < nops && !c.failed; ++k) {
            size_t t = r.below(w.tag.size()), t2 = r.below(w.tag.size());
            size_t i = r.below(w.wat.size()), j = r.below(w.wat.size());
            int x = (int)r.below(100);
            if (x < 22) {
                // tag operations
                if (!w.tag[t]) {
                    if (w.tag[t2] && r.chance(1, 2)) {
                        if (r.chance(1, 2)) { { Lib l; w.tag[t].reset(new LifetimeTag(*w.tag[t2])); } logop(vh::fmt("t%zu=Tag(t%zu)", t, t2)); }
                        else { { Lib l; w.tag[t].reset(new LifetimeTag(std::move(*w.tag[t2]))); } logop(vh::fmt("t%zu=Tag(move(t%zu))", t, t2)); }
                        c.sig.add(51); CNT("lt_tag_copy_or_move_construct");
                    } else { { Lib l; w.tag[t].reset(new LifetimeTag()); } logop(vh::fmt("t%zu=Tag()", t)); c.sig.add(50); }
                    w.tag_id[t] = w.next_id++; w.alive.insert(w.tag_id[t]);
                    CNT("lt_tag_create");
                } else if (w.tag[t2] && r.chance(1, 3)) {
                    { Lib l; if (r.chance(1, 2)) *w.tag[t] = *w.tag[t2]; else *w.tag[t] = std::move(*w.tag[t2]); }
                    logop(vh::fmt("t%zu=t%zu", t, t2)); c.sig.add(52);      // assignment never changes either tag's identity
                    CNT("lt_tag_assign");
                } else {
                    bool watched = false;
                    for (size_t q = 0; q < w.wat.size(); ++q) if (w.wat[q] && w.wat_of[q] == w.tag_id[t]) watched = true;
                    { Lib l; w.tag[t].reset(); }
                    w.alive.erase(w.tag_id[t]); w.tag_id[t] = 0;
                    logop(vh::fmt("delete t%zu", t)); c.sig.add(53);
                    vh::counter(watched ? "lt_tag_destroy_watched" : "lt_tag_destroy_unwatched");
                    if (watched) w.saw_tag_dies_first = true;
                }
            } else if (!w.wat[i]) {
                int y = (int)r.below(10);
                bool src_ok = w.wat[j] && (w.wat_of[j] != 0 || null_copy);
                if (y < 4 && w.tag[t]) {
                    if (r.chance(1, 2)) { Lib l; w.wat[i].reset(new LtWorld::Watcher(*w.tag[t])); }
                    else { Lib l; w.wat[i].reset(new LtWorld::Watcher(w.tag[t]->get())); }
                    w.wat_of[i] = w.tag_id[t]; logop(vh::fmt("w%zu=Watcher(t%zu)", i, t)); c.sig.add(54);
                    CNT("lt_watch_from_tag");
                } else if (y < 7 && src_ok) {
                    { Lib l; w.wat[i].reset(new LtWorld::Watcher(*w.wat[j])); }
                    w.wat_of[i] = w.wat_of[j]; logop(vh::fmt("w%zu=Watcher(w%zu)", i, j)); c.sig.add(55);
                    CNT("lt_watcher_copy");
                } else if (y < 9 && w.wat[j]) {
                    { Lib l; w.wat[i].reset(new LtWorld::Watcher(std::move(*w.wat[j]))); }
                    w.wat_of[i] = w.wat_of[j]; w.wat_of[j] = 0; logop(vh::fmt("w%zu=Watcher(move(w%zu))", i, j)); c.sig.add(56);
                    CNT("lt_watcher_move");
                } else {
                    { Lib l; w.wat[i].reset(new LtWorld::Watcher()); }
                    w.wat_of[i] = 0; logop(vh::fmt("w%zu=Watcher()", i)); c.sig.add(57);
                }
            } else {
                if (!w.wat[j]) j = i;
                if (x < 40 && w.tag[t]) {
                    { Lib l; *w.wat[i] = *w.tag[t]; }
                    w.wat_of[i] = w.tag_id[t]; logop(vh::fmt("w%zu=t%zu", i, t)); c.sig.add(58);
                    CNT("lt_watch_from_tag");
                } else if (x < 55 && (i == j || w.wat_of[j] != 0 || null_copy)) {
                    { Lib l; LtWorld::Watcher &dst = *w.wat[i]; const LtWorld::Watcher &src = *w.wat[j]; dst = src; }
                    w.wat_of[i] = w.wat_of[j]; logop(vh::fmt("w%zu=w%zu", i, j)); c.sig.add(59);
                    CNT("lt_watcher_copy");
                } else if (x < 68) {
                    { Lib l; LtWorld::Watcher &dst = *w.wat[i]; LtWorld::Watcher &src = *w.wat[j]; dst = std::move(src); }
                    if (i != j) { w.wat_of[i] = w.wat_of[j]; w.wat_of[j] = 0; }
                    logop(vh::fmt("w%zu=move(w%zu)", i, j)); c.sig.add(60);
                    CNT("lt_watcher_move");
                } else if (x < 76) {
                    { Lib l; w.wat[i]->swap(*w.wat[j]); }
                    std::swap(w.wat_of[i], w.wat_of[j]); logop(vh::fmt("w%zu.swap(w%zu)", i, j)); c.sig.add(61);
                } else if (x < 86) {
                    { Lib l; w.wat[i]->reset(); }
                    w.wat_of[i] = 0; logop(vh::fmt("w%zu.reset()", i)); c.sig.add(62);
                } else {
                    { Lib l; w.wat[i].reset(); }
                    w.wat_of[i] = 0; logop(vh::fmt("delete w%zu", i)); c.sig.add(63);
                }
            }
            c.sig.add(t * 64 + i * 8 + j);
            w.verify();
        }
        { Lib l; for (auto &p : w.wat) p.reset(); for (auto &p : w.tag) p.reset(); }
        CNTN("ops", (uint64_t)nops);
        bool nt = w.saw_outlive && w.saw_tag_dies_first;
        vh::note_case(c.sig.h, nt);
        if (!c.failed && nt && vh::want_sample(1))
            vh::sample("{\"mode\":\"lifetime\",\"script\":" + vh::jstr(c.script.substr(0, 500)) + "}", 1);
    }
    check_no_lost_blocks("lifetime");
    g = nullptr;
}

uint64_t ipow(uint64_t b, long e) { uint64_t r = 1; while (e-- > 0) r *= b; return r; }

}  // namespace

int main(int argc, char **argv) {
    vh::parse_args(argc, argv);
    const std::string mode = vh::st().args.mode;
    long depth = vh::st().args.num("depth", 5);
    if (mode == "xcount") {
        printf("%llu\n", (unsigned long long)ipow(vh::st().args.str("which", "cabinet") == "fd" ? FDX_ALPHA : CABX_ALPHA, depth));
        return 0;
    }
    g_saved_stdout = dup(1); g_saved_stderr = dup(2);
    trk::install();
    if (trk::available) CNT("heap_tracker_installed");
    return vh::run(argc, argv, [&](uint64_t idx, vh::Rng &r) {
        if (mode == "cabinet") cabinet_case(idx, r);
        else if (mode == "cabinet-x") cabinet_x_case(idx, r, (int)depth);
        else if (mode == "pool") pool_case(idx, r);
        else if (mode == "fd") fd_case(idx, r);
        else if (mode == "fd-x") fd_x_case(idx, r, (int)depth);
        else if (mode == "lifetime") lifetime_case(idx, r);
        else { fprintf(stderr, "VH-FATAL: unknown-mode %s\n", mode.c_str()); abort(); }
    });
}
