// C19 harness support: python reference co-process, exactly sized inputs, canary-guarded outputs.
#ifndef VERIF_C19_SUPPORT_HPP
#define VERIF_C19_SUPPORT_HPP

#include "common/vh.hpp"
#include <csignal>
#include <cerrno>
#include <sys/types.h>
#include <sys/wait.h>
#include <algorithm>
#include <typeinfo>

namespace c19 {

static bool g_verbose = false;

//! harness failure (not a property violation): the runner keys it as harness-fatal/<what>
[[noreturn]] inline void fatal(const char *what) {
    fprintf(stderr, "VH-FATAL: %s\n", what);
    fflush(stderr);
    _exit(3);
}

//! with --verbose every call into the library is announced on stderr first, so a sanitizer report can be attributed
inline void step(const char *f, ...) __attribute__((format(printf, 1, 2)));
inline char *last_step() { static char buf[1024] = ""; return buf; }
inline void step(const char *f, ...) {
    va_list ap; va_start(ap, f);
    vsnprintf(last_step(), 1024, f, ap);     // remembered: guard violations quote the call they follow
    va_end(ap);
    if (g_verbose) fprintf(stderr, "C19-STEP: %s\n", last_step());
}

//! readable rendering of a byte string for witnesses: text if printable, hex otherwise, shortened
inline std::string show(const std::string &s, size_t max = 96) {
    bool printable = true;
    for (unsigned char c : s) if (c < 0x20 || c >= 0x7f || c == '"' || c == '\\') { printable = false; break; }
    std::string body = s.size() > max ? s.substr(0, max) : s;
    std::string o = printable ? "'" + body + "'" : "hex:" + vh::hex(body);
    if (s.size() > max) o += vh::fmt("...(%zu bytes)", s.size());
    return o;
}

inline std::string H(const std::string &s) { return s.empty() ? std::string("-") : vh::hex(s); }

inline std::string unhex(const std::string &h) {
    if (h == "-") return std::string();
    if (h.size() % 2) fatal("ref-odd-hex");
    std::string o(h.size() / 2, '\0');
    auto nib = [](char c) -> int { return c >= '0' && c <= '9' ? c - '0' : c >= 'a' && c <= 'f' ? c - 'a' + 10 : c >= 'A' && c <= 'F' ? c - 'A' + 10 : -1; };
    for (size_t i = 0; i < o.size(); ++i) {
        int a = nib(h[2 * i]), b = nib(h[2 * i + 1]);
        if (a < 0 || b < 0) fatal("ref-bad-hex");
        o[i] = (char)(a * 16 + b);
    }
    return o;
}

// ---- exactly sized input: one byte of over-read is an AddressSanitizer report --------------------------
struct In {
    uint8_t *p;
    size_t n;
    explicit In(const std::string &s) : p((uint8_t *)malloc(s.size())), n(s.size()) {
        if (!p) fatal("malloc");
        if (n) memcpy(p, s.data(), n);
    }
    ~In() { free(p); }
    In(const In &) = delete;
    In &operator=(const In &) = delete;
};

// ---- output with guard regions on both sides; capacity 0 is a valid (non-null) pointer ---------------------
struct Out {
    enum { G = 64 };
    uint8_t *blk;
    size_t cap;
    explicit Out(size_t c) : blk((uint8_t *)malloc(G + c + G)), cap(c) {
        if (!blk) fatal("malloc");
        for (size_t i = 0; i < G; ++i) { blk[i] = canary(i); blk[G + cap + i] = canary(G + i); }
        memset(blk + G, 0xCD, cap);
    }
    ~Out() { free(blk); }
    Out(const Out &) = delete;
    Out &operator=(const Out &) = delete;
    static uint8_t canary(size_t i) { return (uint8_t)(0xA5 ^ (i * 29 + 7)); }
    uint8_t *p() { return blk + G; }
    //! verify both guard regions; reports guard/<site>/wrote-outside-capacity and repairs the guards
    bool check(const char *site) {
        long first_after = -1, first_before = -1; size_t cnt = 0;
        for (size_t i = 0; i < G; ++i) {
            if (blk[G + cap + i] != canary(G + i)) { if (first_after < 0) first_after = (long)i; ++cnt; blk[G + cap + i] = canary(G + i); }
            if (blk[i] != canary(i)) { if (first_before < 0) first_before = (long)(G - i); ++cnt; blk[i] = canary(i); }
        }
        if (!cnt) return true;
        std::string d = vh::fmt("%zu guard byte(s) changed around an output of capacity %zu:", cnt, cap);
        if (first_after >= 0) d += vh::fmt(" first at offset capacity+%ld", first_after);
        if (first_before >= 0) d += vh::fmt(" first before the buffer at offset -%ld", first_before);
        d += std::string(" -- after ") + last_step();
        vh::viol(std::string("guard/") + site + "/wrote-outside-capacity", d);
        vh::counter("guard_violations");
        return false;
    }
};

// ---- python reference co-process ----------------------------------------------------------------------------
struct RefProc {
    pid_t pid = -1;
    FILE *w = nullptr, *r = nullptr;
    uint64_t asked = 0;
};
inline RefProc &refproc() { static RefProc p; return p; }

inline void ref_start() {
    RefProc &rp = refproc();
    if (rp.pid > 0) return;
    signal(SIGPIPE, SIG_IGN);
    std::string script;
    if (const char *e = getenv("C19_REF")) script = e;
    else {
        script = __FILE__;                                   // <verif>/harness/c19_support.hpp
        size_t k = script.rfind("/harness/");
        if (k == std::string::npos) fatal("ref-script-path");
        script = script.substr(0, k) + "/lib/oracles/c19_ref.py";
    }
    const char *py = getenv("VERIF_PYTHON");
    if (!py || !*py) py = "python3";
    int to[2], from[2];
    if (pipe(to) || pipe(from)) fatal("ref-pipe");
    fflush(stdout); fflush(stderr);
    pid_t pid = fork();
    if (pid < 0) fatal("ref-fork");
    if (pid == 0) {
        dup2(to[0], 0); dup2(from[1], 1);
        close(to[0]); close(to[1]); close(from[0]); close(from[1]);
        execlp(py, py, "-S", "-E", script.c_str(), (char *)nullptr);
        _exit(127);
    }
    close(to[0]); close(from[1]);
    rp.pid = pid;
    rp.w = fdopen(to[1], "w");
    rp.r = fdopen(from[0], "r");
    if (!rp.w || !rp.r) fatal("ref-fdopen");
}

inline void ref_stop() {
    RefProc &rp = refproc();
    if (rp.pid <= 0) return;
    fclose(rp.w); fclose(rp.r);
    int st = 0;
    waitpid(rp.pid, &st, 0);
    rp.pid = -1;
}

//! one request, one answer line. A `!BAD` answer or a dead co-process is a harness failure, never a verdict.
inline std::string refq(const std::string &req) {
    ref_start();
    RefProc &rp = refproc();
    if (fputs(req.c_str(), rp.w) < 0 || fputc('\n', rp.w) < 0 || fflush(rp.w) != 0) fatal("ref-write-failed");
    static char *line = nullptr;
    static size_t cap = 0;
    ssize_t n = getline(&line, &cap, rp.r);
    if (n <= 0) fatal("ref-died(self-check-failed?)");
    while (n > 0 && (line[n - 1] == '\n' || line[n - 1] == '\r')) --n;
    std::string a(line, (size_t)n);
    if (a.compare(0, 4, "!BAD") == 0) { fprintf(stderr, "request: %.300s\nanswer: %s\n", req.c_str(), a.c_str()); fatal("ref-bad-request"); }
    ++rp.asked;
    return a;
}

}  // namespace c19

#endif
