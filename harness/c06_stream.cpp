// C06: BufferedFd / TcpConnection / TcpServer / TcpClient / TcpAcceptor / TcpConnector preserve the byte stream.
//
// Real kernel objects (unix socket pairs, pipes, loopback TCP, unix path sockets), the far side is a raw
// non-blocking descriptor driven by the seeded script (or a second tbox endpoint). Byte i of stream s is
// f(s, i) (position coded), so loss, duplication and reordering are detected at the offset where they happen.
//
// modes: bfd  - one BufferedFd (two on pipes) against a raw peer
//        tcp  - TcpServer<->raw clients, TcpClient<->raw listener, TcpAcceptor/TcpConnector + TcpConnection
//               owned by the harness, TcpServer<->TcpClient
//        grid - bfd scenarios whose main parameters are enumerated (mixed radix over the case index)
//
// Verdicts never depend on wall-clock time: a stall is reported only when the kernel queues of the link are
// observed empty (FIONREAD / SIOCOUTQ) while the model says bytes are outstanding and the loop made no
// progress for several passes. Where the kernel state cannot be read the case is counted inconclusive.
#include "common/vh.hpp"
#include "c06_support.hpp"

#include <tbox/event/loop.h>
#include <tbox/network/buffered_fd.h>
#include <tbox/network/tcp_server.h>
#include <tbox/network/tcp_client.h>
#include <tbox/network/tcp_acceptor.h>
#include <tbox/network/tcp_connector.h>
#include <tbox/network/tcp_connection.h>
#include <tbox/network/sockaddr.h>

#include <deque>
#include <memory>
#include <algorithm>

using tbox::event::Loop;
using namespace tbox::network;
using namespace c06;

namespace {

struct Link;

//! one tbox endpoint of a connection (model + handles)
struct TEnd {
    Link *link = nullptr;
    const char *nm = "T";
    Dir *out = nullptr, *in = nullptr;
    size_t threshold = 0;
    int cons = 4;                   //! 0 none, 1 one byte, 2 half, 3 all-but-one, 4 all, 5 mixed
    uint64_t consumed = 0, presented_hi = 0;
    bool can_send = true, can_recv = true;
    bool running = true;            //! BufferedFd enabled (always true for the Tcp classes)
    bool ever_enabled = true;
    bool torn = false;              //! the harness tore this end down
    bool wr_shut = false;           //! the harness half-closed this end
    int close_reports = 0;
    uint64_t sc = 0, rx = 0;
    uint64_t accepted_not_running = 0;      //! bytes accepted by send() while the descriptor was not enabled
    uint64_t accepted_before_first_enable = 0;
    bool backlog_at_reenable = false;       //! the descriptor went through a disable()/enable() cycle
    uint64_t sends_since_sc = 0;
    int hk = 0;                     //! buffer housekeeping by the user: 0 never, 1 sometimes, 2 often (shrink calls, Buffer copies)
    uint64_t kw_mark = 0; bool kw_mark_ok = false;  //! bytes in the kernel right after the last send() (exact transports only)
    bool prefix_likely = false;     //! the receive buffer was last left with unread bytes behind a consumed prefix
    std::deque<uint32_t> sc_plan, rx_plan;  //! sends to issue from inside the next send-complete / receive callbacks
    int teardown_at = 0;            //! 1 inside next receive cb, 2 inside next send-complete cb, 3 inside the close report
    int close_action = 0;           //! bfd: 0 disable, 1 disable + deferred delete, 2 deferred delete only
    int rfd = -1, wfd = -1;         //! kernel descriptors when known
    bool fd_ok = false;
    std::function<bool(const void *, size_t)> do_send;
    std::function<Buffer *()> rbuf;
    std::function<void(bool)> do_teardown;  //! arg: called from inside a callback
    std::function<bool()> do_shutdown_wr;
    uint64_t snap_total = 0; size_t snap_writable = 0; bool snap_ok = false;
    bool strict_close = false; uint64_t close_W = 0;
    bool abort_check = false; uint64_t abort_L = 0; //! reset-type close: bytes that were in the library or readable in the descriptor right after it
    std::function<void(size_t)> do_rxcfg;   //! re-register the receive callback with another threshold on the live connection
    bool peer_closed_wr = false;    //! the peer has (half-)closed: a close report is expected
    bool lenient = false;           //! a reset-type close happened: only prefix properties are judged
    bool saw_backlog = false, saw_represent = false;
    int in_cb = 0;
    // bfd objects (owned here)
    BufferedFd *bfd_w = nullptr, *bfd_r = nullptr;
};

struct Link {
    int idx = 0;
    Transport tr = kUnix;
    Dir t2r, r2t;                   //! T -> peer, peer -> T
    TEnd t;
    bool has_raw = true;
    Raw raw;
    bool has_t2 = false;
    TEnd t2;
    bool broken = false;            //! a content violation was reported: stop judging this link
    bool t_no_more_sends = false;
    bool close_done = false;
    bool inconclusive = false;
    bool pair_checked = false;
};

struct World {
    std::unique_ptr<Loop> loop;
    vh::Rng *r = nullptr;
    vh::Sig sig;
    std::vector<std::unique_ptr<Link>> links;
    bool thorough = false;
    uint64_t budget = 0;            //! bytes that may still be generated in this case
    int prepass_free_fd = -1;
    bool in_pass = false;
    std::string engine;
    uint32_t next_sid = 1;
    std::string script;
    bool saw_close = false;
    bool ending = false;            //! final teardown of the case: monitors are silent

    void log(const std::string &s) {
        if (script.size() < 5000) { script += s; script += ' '; }
        vh::st().case_desc = script;
    }
    uint32_t sid() { return next_sid++; }
    void pump() {
        prepass_free_fd = second_lowest_free_fd();     //! runLoop() itself takes the lowest one for its wake-up eventfd
        if (!ending) for (auto &l : links) { snap(l->t); if (l->has_t2) snap(l->t2); }
        in_pass = true;
        loop->runNext([] {});
        loop->runLoop(Loop::Mode::kOnce);
        in_pass = false;
        vh::counter("loop_passes");
    }
    static void snap(TEnd &t) {
        t.snap_ok = false;
        if (t.torn || t.close_reports || !t.can_recv || !t.rbuf) return;
        Buffer *b = t.rbuf();
        if (!b) return;
        t.snap_total = t.consumed + b->readableSize();
        t.snap_writable = b->writableSize();
        t.snap_ok = true;
    }
};

World *g = nullptr;

TEnd *tpeer(TEnd &t) { Link &l = *t.link; if (!l.has_t2) return nullptr; return &t == &l.t ? &l.t2 : &l.t; }

//! bytes of t.in that have reached t's receive buffer (consumed + still buffered); false if the buffer is gone
bool buf_total(TEnd &t, uint64_t &v, bool in_close_cb = false) {
    Buffer *b = (!t.torn && t.rbuf && (!t.close_reports || in_close_cb || t.bfd_r)) ? t.rbuf() : nullptr;
    if (!b) { v = t.presented_hi; return false; }
    v = t.consumed + b->readableSize();
    return true;
}

//! inet links whose tbox descriptor was inferred: confirm once that the two descriptors really form one connection
void check_pair(Link &l) {
    if (l.pair_checked || l.tr != kTcp) return;
    if (l.has_t2) {
        if (!l.t.fd_ok || !l.t2.fd_ok || l.t.torn || l.t2.torn || l.t.close_reports || l.t2.close_reports) return;
        l.pair_checked = true;
        if (!inet_paired(l.t.rfd, l.t2.rfd)) { l.t.fd_ok = l.t2.fd_ok = false; vh::counter("fd_pair_mismatch"); }
        return;
    }
    if (!l.t.fd_ok || l.raw.rfd < 0 || l.t.torn || l.t.close_reports) return;
    l.pair_checked = true;
    if (!inet_paired(l.t.rfd, l.raw.rfd)) { l.t.fd_ok = false; vh::counter("fd_pair_mismatch"); }
}

//! upper bound of the bytes of t.out the library has written into the kernel (exact on unix sockets and pipes)
bool kernel_written_upper(TEnd &t, uint64_t &v) {
    Link &l = *t.link;
    uint64_t q = 0;
    check_pair(l);
    if (l.tr == kTcp) {             //! unacked bytes first, then the receiver's queue: the sum can only over-estimate
        if (!t.fd_ok) return false;
        long o = outq(t.wfd);
        if (o < 0) return false;
        q += (uint64_t)o;
    }
    if (TEnd *p = tpeer(t)) {
        if (!p->fd_ok || p->torn || p->close_reports) return false;
        uint64_t bt;
        if (!buf_total(*p, bt)) return false;
        long i = inq(p->rfd);
        if (i < 0) return false;
        v = bt + q + (uint64_t)i;
        return true;
    }
    if (l.raw.rfd < 0) return false;
    long i = inq(l.raw.rfd);
    if (i < 0) return false;
    v = l.raw.in->verified + q + (uint64_t)i;
    return true;
}

size_t pick_size(vh::Rng &r, bool big_ok) {
    static const size_t edge[] = {1, 1, 2, 3, 7, 8, 100, 255, 1000, 1023, 1024, 1025, 2047, 2048, 2049, 4095, 4096, 4097, 8192, 10000};
    unsigned k = (unsigned)r.below(100);
    size_t n;
    if (k < 40) n = r.pick(edge);
    else if (k < 60) n = (size_t)r.range(1, 6000);
    else if (k < 82) n = (size_t)r.range(6000, 70000);
    else if (k < 96 || !big_ok) n = (size_t)r.range(60000, 262144);
    else if (!g->thorough) n = (size_t)r.range(262144, 1 << 20);
    else n = (size_t)r.range(1 << 20, 8 << 20);
    return n;
}

//! hand n position-coded bytes to t.send(); classifies the direct-write outcome where the kernel state is exact
void t_send(TEnd &t, size_t n, const char *ctx) {
    Link &l = *t.link;
    if (t.torn || t.close_reports || t.wr_shut || !t.can_send || !t.do_send || l.t_no_more_sends || g->ending) return;
    if (n > g->budget) n = (size_t)g->budget;
    if (n == 0) return;
    g->budget -= n;
    std::unique_ptr<uint8_t[]> buf(new uint8_t[n]);          //! exactly sized heap block: an over-read is an ASan report
    ffill(t.out->id, t.out->accepted, buf.get(), n);
    uint64_t before = 0, after = 0;
    bool exact = (l.tr != kTcp) && !tpeer(t) && kernel_written_upper(t, before);
    bool queue_empty = exact && before == t.out->accepted;
    bool ok = t.do_send(buf.get(), n);
    g->sig.add(0x51); g->sig.add(n); g->sig.add((uint64_t)ctx[0]);
    if (!ok) { vh::counter("send_rejected"); g->log(vh::fmt("%s.send(%zu)=false", t.nm, n)); return; }
    g->log(vh::fmt("%s.send%s(%zu)", t.nm, ctx, n));
    vh::counter("sends");
    vh::counter("bytes_sent", n);
    vh::counter_max("max_send_size", n);
    if (ctx[0] == '@') vh::counter(ctx[1] == 's' ? "sends_from_send_complete_cb" : "sends_from_receive_cb");
    if (!t.running) {
        t.accepted_not_running += n;
        if (!t.ever_enabled) { t.accepted_before_first_enable += n; vh::counter("sends_before_enable"); }
        else vh::counter("sends_while_disabled");
        t.saw_backlog = true;
    }
    t.out->accepted += n;
    ++t.sends_since_sc;
    t.kw_mark_ok = false;
    if (exact && kernel_written_upper(t, after)) {
        t.kw_mark = after; t.kw_mark_ok = true;
        uint64_t d = after - before;
        if (t.running && queue_empty) {
            if (d == n) vh::counter("direct_write_complete");
            else if (d == 0) { vh::counter("direct_write_eagain"); t.saw_backlog = true; }
            else { vh::counter("direct_write_partial"); t.saw_backlog = true; }
        } else if (t.running) {
            vh::counter("send_appended_behind_queue"); t.saw_backlog = true;
        }
        if (after > t.out->accepted)
            vh::viol("peer/more-than-sent", vh::fmt("%s: kernel holds %llu bytes of a stream of which only %llu were handed to send()",
                                                      t.nm, (unsigned long long)after, (unsigned long long)t.out->accepted));
    }
}

void bfd_delete(TEnd &t) {
    BufferedFd *w = t.bfd_w, *r = t.bfd_r;
    t.bfd_w = t.bfd_r = nullptr;
    if (w) delete w;
    if (r && r != w) delete r;
}

void bfd_close_action(TEnd &t) {
    //! what a user does when told the peer is gone: stop the events and (like TcpConnection) defer the destruction
    if (t.close_action != 2) {
        if (t.bfd_r) t.bfd_r->disable();
        if (t.bfd_w && t.bfd_w != t.bfd_r) t.bfd_w->disable();
        t.running = false;
    }
    if (t.close_action != 0) {
        t.torn = true; t.running = false;
        BufferedFd *w = t.bfd_w, *r = t.bfd_r;
        t.bfd_w = t.bfd_r = nullptr;
        g->loop->runNext([w, r] { if (w) delete w; if (r && r != w) delete r; });
    }
}

//! tear this tbox end down (disconnect() / stop() / destroy). On a tbox<->tbox link the other end now expects a close report;
//! it is held to the strict ordering only when the kernel state shows that nothing was outstanding in either direction.
void perform_teardown(TEnd &t, bool in_cb) {
    Link &l = *t.link;
    if (TEnd *p = tpeer(t)) {
        uint64_t wt = 0, wp = 0, bt = 0, bp = 0;
        bool clean = l.tr != kTcp && !t.lenient && !p->lenient && !p->torn && !p->close_reports
                     && kernel_written_upper(t, wt) && wt == t.out->accepted
                     && kernel_written_upper(*p, wp) && wp == p->out->accepted
                     && buf_total(t, bt) && bt == wp && buf_total(*p, bp);
        p->peer_closed_wr = true;
        if (clean) { p->strict_close = true; p->close_W = t.out->accepted; vh::counter("tbox_peer_clean_teardown"); }
        else { p->lenient = true; vh::counter("tbox_peer_unclean_teardown"); }
        l.t_no_more_sends = true;
        p->sc_plan.clear(); p->rx_plan.clear(); t.sc_plan.clear(); t.rx_plan.clear();
    }
    t.do_teardown(in_cb);
}

// ---------------------------------------------------------------- buffer housekeeping a user may do at any time
// Buffer::shrink() (= BufferedFd::shrinkRecvBuffer()/shrinkSendBuffer()) and copying the Buffer handed to the receive
// callback must not change a single unread byte, whatever the read offset of the buffer is.

//! the receive buffer must still hold exactly f[consumed, consumed+n)
bool recv_window_intact(TEnd &t, Buffer &b, size_t expect, const char *key, const char *what) {
    Link &l = *t.link;
    size_t n = b.readableSize();
    long bad = n == expect ? fdiff(t.in->id, t.consumed, b.readableBegin(), n) : 0;
    if (n == expect && bad < 0) return true;
    if (n != expect)
        vh::viol(key, vh::fmt("%s: %s changed the number of unread bytes from %zu to %zu", t.nm, what, expect, n));
    else
        vh::viol(key, vh::fmt("%s: after %s the unread bytes (stream offsets [%llu,%llu)) differ at offset %llu: %s", t.nm, what,
                 (unsigned long long)t.consumed, (unsigned long long)(t.consumed + n), (unsigned long long)(t.consumed + bad),
                 explain(t.in->id, t.consumed + bad, b.readableBegin() + bad, n - bad).c_str()));
    l.broken = true;
    return false;
}

//! shrink the receive buffer; prefix = it certainly has unread bytes behind a consumed prefix (read offset > 0)
void recv_shrink(TEnd &t, Buffer &b, bool prefix, const char *ctx) {
    size_t before = b.readableSize();
    bool via_fd = t.bfd_r && g->r->chance(2, 3);
    if (via_fd) t.bfd_r->shrinkRecvBuffer(); else b.shrink();
    vh::counter("shrink_recv");
    if (prefix) vh::counter("shrink_recv_with_unread_behind_consumed_prefix");
    else if (before) vh::counter("shrink_recv_with_unread_data");
    g->log(vh::fmt("%s.shrink_recv%s", t.nm, ctx));
    g->sig.add(0x71); g->sig.add(prefix);
    recv_window_intact(t, b, before, "recv/shrink-changed-unread-bytes", via_fd ? "shrinkRecvBuffer()" : "Buffer::shrink()");
    t.prefix_likely = false;
}

//! the callback takes a copy of the Buffer it was given (copy construction or copy assignment) and reads the copy
void recv_copy_check(TEnd &t, Buffer &b, bool prefix) {
    Link &l = *t.link;
    bool assign = g->r->chance(1, 2);
    Buffer c2(7);
    if (assign) { uint8_t junk[5] = {1, 2, 3, 4, 5}; c2.append(junk, 5); c2.hasRead(2); c2 = b; }
    else { Buffer c1(b); c2.swap(c1); }
    vh::counter("recv_buffer_copied_in_callback");
    if (prefix) vh::counter("recv_buffer_copied_behind_consumed_prefix");
    g->sig.add(0x72); g->sig.add(prefix);
    size_t n = b.readableSize();
    if (c2.readableSize() != n) {
        vh::viol("recv/buffer-copy-differs", vh::fmt("%s: a copy (%s) of the receive buffer holds %zu readable bytes, the original %zu",
                                                     t.nm, assign ? "assignment" : "construction", c2.readableSize(), n));
        l.broken = true;
        return;
    }
    long bad = fdiff(t.in->id, t.consumed, c2.readableBegin(), n);
    if (bad >= 0) {
        vh::viol("recv/buffer-copy-differs", vh::fmt("%s: a copy (%s) of the receive buffer (stream offsets [%llu,%llu), taken %s) differs from the "
                 "original at offset %llu: %s", t.nm, assign ? "assignment" : "construction", (unsigned long long)t.consumed,
                 (unsigned long long)(t.consumed + n), prefix ? "behind a consumed prefix" : "with nothing consumed in this callback",
                 (unsigned long long)(t.consumed + bad), explain(t.in->id, t.consumed + bad, c2.readableBegin() + bad, n - bad).c_str()));
        l.broken = true;
    }
    // the original must be untouched by having been copied
    if (!l.broken) recv_window_intact(t, b, n, "recv/buffer-copy-differs", "copying it");
}

//! shrinkSendBuffer(); what the peer reads afterwards is judged by the position code
void send_shrink(TEnd &t, const char *ctx) {
    if (!t.bfd_w || t.torn) return;
    Link &l = *t.link;
    uint64_t kw = 0;
    bool exact = l.tr != kTcp && !tpeer(t) && kernel_written_upper(t, kw);
    bool queued = exact && kw < t.out->accepted;
    bool partly = queued && t.running && t.kw_mark_ok && kw > t.kw_mark;    //! the write callback drained part of the queue since the last append
    t.bfd_w->shrinkSendBuffer();
    vh::counter("shrink_send");
    if (partly) vh::counter("shrink_send_with_partly_drained_queue");
    else if (queued) vh::counter("shrink_send_with_untouched_queue");
    g->log(vh::fmt("%s.shrink_send%s", t.nm, ctx));
    g->sig.add(0x73); g->sig.add(partly);
}

//! housekeeping from outside any callback
void housekeeping_step(TEnd &t, vh::Rng &r) {
    if (t.torn || t.close_reports) return;
    if (t.bfd_w && r.chance(3, 5)) { send_shrink(t, ""); return; }
    Buffer *b = t.rbuf ? t.rbuf() : nullptr;
    if (b && t.in_cb == 0) recv_shrink(t, *b, false, t.prefix_likely && b->readableSize() ? "(likely behind a prefix)" : "");
}

// ---------------------------------------------------------------- monitors (called from the library's callbacks)

void on_rx(TEnd &t, Buffer &b) {
    Link &l = *t.link;
    if (g->ending) { b.hasReadAll(); return; }
    ++t.in_cb; ++t.rx;
    vh::counter("receive_callbacks");
    if (l.broken) { b.hasReadAll(); --t.in_cb; return; }
    if (t.close_reports)
        vh::viol("recv/after-close-report", vh::fmt("%s: receive callback after the peer close had been reported", t.nm));
    if (t.torn)
        vh::viol("callback/receive-after-disconnect", vh::fmt("%s: receive callback after the harness disconnected this end", t.nm));
    size_t rsz = b.readableSize();
    if (rsz < t.threshold)
        vh::viol("recv/below-threshold", vh::fmt("%s: callback with %zu readable bytes, threshold %zu", t.nm, rsz, t.threshold));
    long bad = fdiff(t.in->id, t.consumed, b.readableBegin(), rsz);
    uint64_t hi = t.consumed + rsz;
    if (bad >= 0) {
        vh::viol("recv/content-mismatch", vh::fmt("%s: buffer should hold stream offsets [%llu,%llu) but differs at offset %llu: %s",
                 t.nm, (unsigned long long)t.consumed, (unsigned long long)hi, (unsigned long long)(t.consumed + bad),
                 explain(t.in->id, t.consumed + bad, b.readableBegin() + bad, rsz - bad).c_str()));
        l.broken = true;
    } else if (hi > t.in->accepted) {
        vh::viol("recv/more-than-written", vh::fmt("%s: presented up to offset %llu, the peer wrote only %llu bytes",
                 t.nm, (unsigned long long)hi, (unsigned long long)t.in->accepted));
        l.broken = true;
    } else if (hi < t.presented_hi) {
        vh::viol("recv/presented-bytes-vanished", vh::fmt("%s: previously presented up to %llu, now only up to %llu (consumed %llu)",
                 t.nm, (unsigned long long)t.presented_hi, (unsigned long long)hi, (unsigned long long)t.consumed));
        l.broken = true;
    }
    if (l.broken) { b.hasReadAll(); --t.in_cb; return; }
    if (t.consumed < t.presented_hi && hi > t.presented_hi) { vh::counter("unconsumed_represented_with_later_data"); t.saw_represent = true; }
    if (hi == t.presented_hi) vh::counter("receive_cb_without_new_data");
    if (t.snap_ok && hi > t.snap_total && hi - t.snap_total > t.snap_writable) vh::counter("spill_buffer_used");
    if (t.snap_ok && hi > t.snap_total && hi - t.snap_total > t.snap_writable + 1024) vh::counter("read_loop_second_readv");
    t.snap_ok = false;
    vh::counter("bytes_presented_new", hi - t.presented_hi);
    t.presented_hi = hi;
    t.in->verified = hi;
    int mode = t.cons == 5 ? (int)g->r->below(5) : t.cons;
    size_t k = 0;
    switch (mode) {
        case 0: k = 0; break;
        case 1: k = rsz ? 1 : 0; break;
        case 2: k = rsz / 2; break;
        case 3: k = rsz ? rsz - 1 : 0; break;
        default: k = rsz; break;
    }
    if (k == rsz) b.hasReadAll(); else b.hasRead(k);
    t.consumed += k;
    if (k < rsz) vh::counter("receive_cb_left_unconsumed");
    bool prefix = k > 0 && k < rsz;         //! unread bytes behind a prefix consumed just now: the read offset is certainly > 0
    t.prefix_likely = prefix || (k == 0 && t.prefix_likely);
    if (t.hk) {
        unsigned pc = t.hk == 2 ? 35 : 10;
        if (g->r->chance(pc, 100)) recv_copy_check(t, b, prefix);
        if (!l.broken && g->r->chance(pc, 100)) recv_shrink(t, b, prefix, "@rx");
        if (!l.broken && t.bfd_w && g->r->chance(pc, 100)) send_shrink(t, "@rx");
        if (l.broken) { b.hasReadAll(); --t.in_cb; return; }
    }
    while (!t.rx_plan.empty() && !t.torn) { uint32_t n = t.rx_plan.front(); t.rx_plan.pop_front(); t_send(t, n, "@rx"); }
    if (t.teardown_at == 1 && !t.torn && t.do_teardown) { t.teardown_at = 0; g->log(vh::fmt("%s.teardown@rx", t.nm)); vh::counter("teardown_in_receive_cb"); perform_teardown(t, true); }
    --t.in_cb;
}

void on_sc(TEnd &t) {
    Link &l = *t.link;
    if (g->ending) return;
    ++t.in_cb; ++t.sc;
    vh::counter("send_complete_callbacks");
    if (t.torn || t.close_reports) {
        vh::counter("send_complete_after_teardown_or_close");      //! not judged here (stale sibling dispatch is C03's subject)
        --t.in_cb; return;
    }
    bool peer_gone = l.has_raw ? (l.raw.closed) : (tpeer(t)->torn || tpeer(t)->close_reports);
    if (!l.broken && !peer_gone && !t.lenient) {
        uint64_t w;
        if (kernel_written_upper(t, w)) {
            vh::counter("send_complete_checked");
            if (w < t.out->accepted)
                vh::viol("sendcomplete/before-all-written",
                         vh::fmt("%s: send-complete fired with %llu bytes accepted by send() but at most %llu written to the descriptor",
                                 t.nm, (unsigned long long)t.out->accepted, (unsigned long long)w));
        } else vh::counter("send_complete_unchecked");
    }
    if (t.sends_since_sc == 0) vh::counter("send_complete_repeated_without_send");
    t.sends_since_sc = 0;
    if (t.hk && g->r->chance(t.hk == 2 ? 35 : 10, 100)) {
        if (t.bfd_w) send_shrink(t, "@sc");
        Buffer *rb = (t.bfd_r && t.rbuf) ? t.rbuf() : nullptr;     //! on the Tcp classes the receive buffer is only handed out in the receive callback
        if (rb && g->r->chance(1, 2)) recv_shrink(t, *rb, false, t.prefix_likely && rb->readableSize() ? "@sc(likely behind a prefix)" : "@sc");
    }
    while (!t.sc_plan.empty() && !t.torn) { uint32_t n = t.sc_plan.front(); t.sc_plan.pop_front(); t_send(t, n, "@sc"); }
    if (t.teardown_at == 2 && !t.torn && t.do_teardown) { t.teardown_at = 0; g->log(vh::fmt("%s.teardown@sc", t.nm)); vh::counter("teardown_in_send_complete_cb"); perform_teardown(t, true); }
    --t.in_cb;
}

//! peer close reported (read-zero / read-error on BufferedFd, disconnected on the Tcp classes)
void on_close(TEnd &t, const char *how) {
    Link &l = *t.link;
    if (g->ending) return;
    ++t.in_cb;
    ++t.close_reports;
    vh::counter("close_reports");
    vh::counter(std::string("close_report_") + how);
    g->log(vh::fmt("[%s.closed:%s]", t.nm, how));
    if (t.close_reports > 1)
        vh::viol("close/reported-twice", vh::fmt("%s: peer close reported %d times (%s)", t.nm, t.close_reports, how));
    if (t.torn)
        vh::viol("callback/close-after-disconnect", vh::fmt("%s: close reported after the harness disconnected this end", t.nm));
    if (!t.peer_closed_wr && !t.lenient && !l.broken && t.close_reports == 1)
        vh::viol("close/reported-without-close", vh::fmt("%s: close (%s) reported although the peer has not closed", t.nm, how));
    if (t.strict_close && !l.broken && t.close_reports == 1) {
        uint64_t W = t.close_W, tot;
        vh::counter("close_order_checked");
        if (buf_total(t, tot, true)) {
            if (tot != W)
                vh::viol("close/before-all-data-read", vh::fmt("%s: close reported with %llu of the %llu bytes that preceded it in the receive buffer",
                         t.nm, (unsigned long long)tot, (unsigned long long)W));
            else {
                Buffer *b = t.rbuf();
                long bad = fdiff(t.in->id, t.consumed, b->readableBegin(), b->readableSize());
                if (bad >= 0) vh::viol("recv/content-mismatch", vh::fmt("%s: buffer at close differs at offset %llu", t.nm, (unsigned long long)(t.consumed + bad)));
                vh::counter("close_left_in_buffer_checked");
            }
        }
        if (t.presented_hi != W && !(W - t.consumed < t.threshold))
            vh::viol("close/before-data-presented", vh::fmt("%s: close reported after presenting %llu of %llu preceding bytes (consumed %llu, threshold %zu)",
                     t.nm, (unsigned long long)t.presented_hi, (unsigned long long)W, (unsigned long long)t.consumed, t.threshold));
        if (t.presented_hi != W) vh::counter("close_tail_below_threshold");
    }
    if (t.abort_check && !l.broken && t.close_reports == 1) {
        uint64_t L = t.abort_L, tot = 0;
        vh::counter("close_after_reset_checked");
        bool have = buf_total(t, tot, true);
        if (have && tot < L)
            vh::viol("close/before-all-data-read", vh::fmt("%s: close (%s) reported with %llu bytes in the receive buffer; %llu were already there or readable "
                     "in the descriptor when the peer went away", t.nm, how, (unsigned long long)tot, (unsigned long long)L));
        uint64_t ref = have ? tot : L;
        if (t.presented_hi < ref && !(ref - t.consumed < t.threshold))
            vh::viol("close/before-data-presented", vh::fmt("%s: close (%s) reported after presenting %llu bytes; %llu had been received or were readable in the "
                     "descriptor when the peer went away abortively (consumed %llu, threshold %zu)", t.nm, how, (unsigned long long)t.presented_hi,
                     (unsigned long long)ref, (unsigned long long)t.consumed, t.threshold));
    }
    if (t.bfd_r || t.bfd_w) bfd_close_action(t);
    if (t.teardown_at == 3 && !t.torn && t.do_teardown) { t.teardown_at = 0; g->log(vh::fmt("%s.teardown@close", t.nm)); vh::counter("teardown_in_close_cb"); perform_teardown(t, true); }
    --t.in_cb;
}

// ---------------------------------------------------------------- raw peer steps

void r_read(Link &l, size_t max) {
    if (!l.has_raw || l.raw.rfd < 0) return;
    std::string err;
    size_t n = l.raw.read_some(max, err);
    if (!err.empty() && !l.broken) { vh::viol(err.substr(0, err.find('|')), err.substr(err.find('|') + 1)); l.broken = true; }
    if (n) vh::counter("bytes_read_by_raw_peer", n);
}

size_t r_write(Link &l, size_t n) {
    if (!l.has_raw || l.raw.wfd < 0 || l.raw.wr_shut) return 0;
    if (n > g->budget) n = (size_t)g->budget;
    size_t w = l.raw.write_some(n);
    g->budget -= w;
    if (w < n) vh::counter("raw_peer_partial_writes");
    vh::counter("bytes_written_by_raw_peer", w);
    return w;
}

//! the raw peer half-closes (clean) or closes (clean only if nothing is outstanding either way)
void r_close(Link &l, int kind) {
    if (!l.has_raw || l.raw.closed || l.close_done || l.raw.rfd < 0 || l.raw.wfd < 0) return;
    l.close_done = true; g->saw_close = true;
    TEnd &t = l.t;
    if (kind == 0 && l.tr == kPipe) kind = 1;
    if (kind == 0) {                                    //! shutdown(SHUT_WR), keeps reading
        if (l.raw.wr_shut) return;
        ::shutdown(l.raw.wfd, SHUT_WR);
        l.raw.wr_shut = true;
        t.peer_closed_wr = true;
        if (!t.lenient) { t.strict_close = true; t.close_W = l.r2t.accepted; }
        vh::counter("peer_half_close");
        g->log("R.shutdown(WR)");
    } else {
        bool clean = false, abortive = false;
        size_t wrote_before = 0;
        if (kind == 3 && l.tr == kPipe) kind = 1;
        if (kind == 3) {
            //! abortive ending with data written just before: the peer writes a block and goes away with unread inbound data
            //! (unix: ECONNRESET after the data, TCP: RST) or with SO_LINGER {1,0}; no loop pass in between
            if (l.tr != kTcp && inq(l.raw.rfd) == 0 && !t.torn && !t.close_reports) t_send(t, 5, "");   //! something the peer never reads
            static const size_t bs[] = {1, 700, 3000, 70000};
            size_t n = g->r->chance(1, 2) ? g->r->pick(bs) : pick_size(*g->r, false);
            wrote_before = r_write(l, n);
            g->log(vh::fmt("R.write(%zu)=%zu", n, wrote_before));
            bool lingered = false;
            if (l.tr == kTcp && (inq(l.raw.rfd) <= 0 || g->r->chance(1, 2))) {
                struct linger lg; lg.l_onoff = 1; lg.l_linger = 0;
                lingered = ::setsockopt(l.raw.wfd, SOL_SOCKET, SO_LINGER, &lg, sizeof lg) == 0;
            }
            abortive = lingered || inq(l.raw.rfd) > 0;
        }
        check_pair(l);
        if (kind == 1) {                                //! read everything first; clean when nothing is outstanding
            r_read(l, SIZE_MAX);
            clean = !t.lenient && l.raw.in->verified == l.raw.in->accepted && !l.raw.rerr;
            if (clean && l.tr == kTcp && outq(l.raw.wfd) != 0) {
                //! bytes of the raw peer are still unacknowledged: after close() the harness could no longer see them travel
                l.close_done = false;
                r_close(l, 0);
                return;
            }
        }
        if (l.tr == kPipe) {
            //! closing the write end of the inbound pipe is an orderly end-of-file whatever happens on the other pipe
            clean = !t.lenient;
        }
        l.raw.close_all();
        t.peer_closed_wr = true;
        l.t_no_more_sends = true;
        t.sc_plan.clear(); t.rx_plan.clear();
        if (clean) { t.strict_close = true; t.close_W = l.r2t.accepted; vh::counter("peer_clean_close"); g->log("R.close()"); }
        else {
            t.lenient = true; vh::counter("peer_reset_close"); g->log(kind == 3 ? "R.close(abortive)" : "R.close(dirty)");
            //! whatever the library already holds plus whatever a plain recv() on the descriptor would still return (Linux hands out
            //! queued data before the pending error) must be presented before the close is reported; later arrivals only add to it
            uint64_t bt; long q;
            if (l.tr != kPipe && !t.torn && !t.close_reports && t.fd_ok && t.can_recv && buf_total(t, bt) && (q = inq(t.rfd)) >= 0) {
                t.abort_check = true; t.abort_L = bt + (uint64_t)q;
                vh::counter("peer_reset_close_readable_measured");
                if (q > 0) vh::counter("peer_reset_close_with_data_pending");
                if (kind == 3 && abortive && wrote_before > 0 && q > 0) vh::counter("peer_abortive_close_with_data_pending");
            }
        }
    }
    g->sig.add(0x77); g->sig.add(kind);
}

void t_teardown(TEnd &t, int where) {
    Link &l = *t.link;
    if (t.torn || !t.do_teardown || l.close_done) return;
    l.close_done = true; g->saw_close = true;
    g->sig.add(0x78); g->sig.add(where);
    if (where == 0) {
        g->log(vh::fmt("%s.teardown", t.nm));
        vh::counter("teardown_outside_cb");
        perform_teardown(t, false);
    } else t.teardown_at = where;
}

// ---------------------------------------------------------------- final drain and judgement

struct Need { bool send = false, recv = false, close = false; };

//! what is still owed on link l seen from tbox end t; returns true when nothing is
bool settled(Link &l, TEnd &t, Need &need) {
    need = Need();
    if (l.broken || l.inconclusive) return true;
    TEnd *p = tpeer(t);
    bool t_up = !t.torn && !t.close_reports && t.running;
    // t -> peer complete?
    if (t_up && t.can_send && !t.lenient) {
        if (l.has_raw && &t == &l.t) {
            if (!l.raw.closed && !l.raw.eof_or_err() && l.raw.in->verified != t.out->accepted) need.send = true;
        } else if (p && !p->torn && !p->close_reports && p->running && !p->lenient) {
            uint64_t bt; buf_total(*p, bt);
            if (bt != t.out->accepted) need.send = true;
        }
    }
    // raw peer -> t complete, presented, close reported?
    if (l.has_raw && &t == &l.t && t.can_recv) {
        if (t_up && !t.lenient) {
            uint64_t bt; buf_total(t, bt);
            if (bt != l.r2t.accepted) need.recv = true;
            else if (t.presented_hi != l.r2t.accepted && !(l.r2t.accepted - t.consumed < t.threshold)) need.recv = true;
        }
        if (t.peer_closed_wr && !t.torn && !t.close_reports && t.running) need.close = true;
    }
    if (p && t.can_recv && t.peer_closed_wr && !t.torn && !t.close_reports && t.running) need.close = true;
    return !(need.send || need.recv || need.close);
}

uint64_t progress_sig() {
    uint64_t s = 0;
    for (auto &lp : g->links) {
        Link &l = *lp;
        s = vh::mix(s, l.t2r.verified); s = vh::mix(s, l.r2t.verified);
        TEnd *ts[2] = {&l.t, l.has_t2 ? &l.t2 : nullptr};
        for (TEnd *t : ts) {
            if (!t) continue;
            uint64_t bt; buf_total(*t, bt);
            s = vh::mix(s, bt); s = vh::mix(s, t->sc); s = vh::mix(s, t->rx); s = vh::mix(s, (uint64_t)t->close_reports);
            s = vh::mix(s, t->presented_hi);
        }
        s = vh::mix(s, (uint64_t)l.raw.eof + 2 * (uint64_t)l.raw.rerr);
    }
    return s;
}

//! 0: kernel shows the owed bytes are still travelling (wait), 1: judged (violation or fine), 2: cannot tell
int judge(Link &l, TEnd &t, const Need &need) {
    TEnd *p = tpeer(t);
    check_pair(l);
    if (need.send) {
        uint64_t w;
        if (!kernel_written_upper(t, w)) return 2;
        uint64_t got = p ? 0 : l.raw.in->verified;
        if (p) buf_total(*p, got);
        if (w > got) return 0;      //! bytes in a kernel queue: the receiver will get them
        const char *key = t.accepted_before_first_enable ? "send/stalled/queued-before-enable"
                        : (t.accepted_not_running || t.backlog_at_reenable) ? "send/stalled/queued-across-disable-enable" : "send/stalled/while-enabled";
        vh::viol(key, vh::fmt("%s: %llu bytes accepted by send(), the peer holds %llu and the kernel queues of the link are empty; the loop "
                              "made no progress for several passes (bytes accepted while not enabled: %llu, send-complete callbacks: %llu)",
                              t.nm, (unsigned long long)t.out->accepted, (unsigned long long)got,
                              (unsigned long long)t.accepted_not_running, (unsigned long long)t.sc));
        return 1;
    }
    if (need.recv) {
        if (!t.fd_ok) return 2;
        long q = inq(t.rfd);
        long o = (l.tr == kTcp) ? outq(l.raw.wfd) : 0;
        if (q < 0 || (l.tr == kTcp && l.raw.wfd >= 0 && o < 0)) return 2;
        uint64_t bt; buf_total(t, bt);
        if (q > 0) {
            vh::viol("recv/stalled", vh::fmt("%s: %ld bytes wait in the descriptor, the read event is enabled and the loop made no progress", t.nm, q));
            return 1;
        }
        if (o > 0) return 0;
        if (l.tr == kTcp && l.raw.wfd < 0) return 2;     //! the raw socket is closed: its unsent bytes cannot be observed
        if (bt != l.r2t.accepted)
            vh::viol("recv/lost-bytes", vh::fmt("%s: the peer wrote %llu bytes, the kernel queues are empty, the library holds/consumed %llu",
                                                t.nm, (unsigned long long)l.r2t.accepted, (unsigned long long)bt));
        else
            vh::viol("recv/not-presented", vh::fmt("%s: %llu bytes received, %llu consumed, only %llu presented although at least the threshold (%zu) is readable",
                                                   t.nm, (unsigned long long)bt, (unsigned long long)t.consumed, (unsigned long long)t.presented_hi, t.threshold));
        return 1;
    }
    if (need.close) {
        if (!t.fd_ok) return 2;
        int pr = poll_in(t.rfd);
        if (pr < 0) return 2;
        if (pr == 0) return 0;      //! the FIN / reset has not arrived yet
        long q = inq(t.rfd);
        if (q > 0) { vh::viol("recv/stalled", vh::fmt("%s: %ld bytes wait in the descriptor before the close", t.nm, q)); return 1; }
        vh::viol("close/not-reported", vh::fmt("%s: the descriptor is at end-of-file (poll says readable, 0 bytes queued), the read event is enabled, "
                                               "but no close was reported", t.nm));
        return 1;
    }
    return 1;
}

void final_drain() {
    int idle = 0, waits = 0;
    uint64_t last = progress_sig();
    const int kMaxPass = 200000;
    for (int pass = 0; pass < kMaxPass; ++pass) {
        g->pump();
        for (auto &l : g->links) r_read(*l, SIZE_MAX);
        bool all = true;
        for (auto &lp : g->links) {
            Need n;
            if (!settled(*lp, lp->t, n)) all = false;
            if (lp->has_t2 && !settled(*lp, lp->t2, n)) all = false;
        }
        if (all) { vh::counter_max("max_drain_passes", pass + 1); return; }
        uint64_t s = progress_sig();
        if (s != last) { last = s; idle = 0; continue; }
        if (++idle < 4) continue;
        bool waiting = false;
        for (auto &lp : g->links) {
            Link &l = *lp;
            TEnd *ts[2] = {&l.t, l.has_t2 ? &l.t2 : nullptr};
            for (TEnd *t : ts) {
                Need n;
                if (!t || settled(l, *t, n)) continue;
                int v = judge(l, *t, n);
                if (v == 1) l.broken = true;
                else if (v == 0) waiting = true;
                else if (waits > 2500) { l.inconclusive = true; vh::counter("inconclusive_kernel_state_unknown"); }
                else waiting = true;
            }
        }
        if (waiting) {
            if (++waits > 3000) {
                for (auto &lp : g->links) if (!lp->broken) lp->inconclusive = true;
                vh::counter("inconclusive_patience_exhausted");
                return;
            }
            struct timespec ts = {0, 1000000};
            nanosleep(&ts, nullptr);
            vh::counter("waits_for_kernel_in_flight");
            vh::counter(std::string("waits_") + trname(g->links[0]->tr));
        }
        idle = 2;
    }
    vh::counter("inconclusive_pass_cap");
}

// ---------------------------------------------------------------- generic script steps over the live links

void cfg_rx(TEnd &t, vh::Rng &r) {
    static const size_t th[] = {0, 0, 1, 7, 4096};
    t.threshold = r.pick(th);
    static const int cm[] = {4, 4, 0, 1, 2, 3, 5, 5};
    t.cons = r.pick(cm);
}

void plan_close(Link &l, vh::Rng &r) {
    unsigned k = (unsigned)r.below(100);
    TEnd &t = l.t;
    if (l.has_t2) {
        //! tbox <-> tbox: one side tears down (outside or inside a callback)
        TEnd &x = r.chance(1, 2) ? l.t : l.t2;
        t_teardown(x, (int)r.below(4));
        return;
    }
    if (k < 30) r_close(l, 0);
    else if (k < 50) r_close(l, 1);
    else if (k < 56) r_close(l, 2);
    else if (k < 67) r_close(l, 3);
    else if (k < 80) t_teardown(t, 0);
    else if (k < 88) t_teardown(t, 1);
    else if (k < 95) t_teardown(t, 2);
    else { r_close(l, r.chance(1, 2) ? 0 : 1); t.teardown_at = 3; }
}

void generic_step(Link &l, vh::Rng &r, bool allow_close) {
    TEnd *tx = (l.has_t2 && r.chance(1, 2)) ? &l.t2 : &l.t;
    unsigned k = (unsigned)r.below(100);
    if (tx->hk && (tx->bfd_w || tx->bfd_r) && r.chance(tx->hk == 2 ? 14 : 5, 100)) { housekeeping_step(*tx, r); return; }
    if (k < 28) t_send(*tx, pick_size(r, true), "");
    else if (k < 36) { int c = (int)r.range(2, 6); for (int i = 0; i < c; ++i) t_send(*tx, pick_size(r, false), ""); vh::counter("bursts"); }
    else if (k < 56) {
        static const size_t amt[] = {1, 7, 100, 1024, 4096, 65536, SIZE_MAX, SIZE_MAX};
        size_t a = r.pick(amt);
        if (l.has_raw) { r_read(l, a); g->log(a == SIZE_MAX ? std::string("R.read(all)") : vh::fmt("R.read(%zu)", a)); g->sig.add(0x52); g->sig.add(a); }
    } else if (k < 72) {
        if (l.has_raw) { size_t n = pick_size(r, false); size_t w = r_write(l, n); g->log(vh::fmt("R.write(%zu)=%zu", n, w)); g->sig.add(0x53); g->sig.add(n); }
        else t_send(*tx, pick_size(r, false), "");
    } else if (k < 80) {
        int c = (int)r.range(1, 3);
        for (int i = 0; i < c; ++i) tx->sc_plan.push_back((uint32_t)pick_size(r, false));
        g->log(vh::fmt("%s.plan_sc(%d)", tx->nm, c));
    } else if (k < 86) {
        tx->rx_plan.push_back((uint32_t)pick_size(r, false));
        g->log(vh::fmt("%s.plan_rx", tx->nm));
    } else if (k < 92) {
        int c = (int)r.range(1, 4);
        for (int i = 0; i < c; ++i) g->pump();
        g->log(vh::fmt("pump*%d", c));
    } else if (allow_close && !l.close_done) plan_close(l, r);
    else t_send(*tx, pick_size(r, true), "");
}

// ---------------------------------------------------------------- mode bfd

struct BfdCfg {
    int tr = -1;            //! Transport or -1 random
    int size_class = -1;    //! unused in random mode
    int start_enabled = -1;
    int threshold_i = -1, cons = -1;
    int close_kind = -1;    //! 0 none 1 half-close 2 clean close 3 teardown
};

void bfd_wire(TEnd &t) {
    TEnd *tp = &t;
    if (t.bfd_r) {
        t.bfd_r->setReceiveCallback([tp](Buffer &b) { on_rx(*tp, b); }, t.threshold);
        t.bfd_r->setReadZeroCallback([tp] { on_close(*tp, "read_zero"); });
        t.bfd_r->setReadErrorCallback([tp](int) { on_close(*tp, "read_error"); });
    }
    if (t.bfd_w) {
        t.bfd_w->setSendCompleteCallback([tp] { on_sc(*tp); });
        t.bfd_w->setWriteErrorCallback([](int) { vh::counter("write_error_callbacks"); });
    }
}

void bfd_enable(TEnd &t, bool on) {
    if (t.torn) return;
    if (on) {
        if (t.bfd_w) t.bfd_w->enable();
        if (t.bfd_r && t.bfd_r != t.bfd_w) t.bfd_r->enable();
        uint64_t kw;
        bool backlog = !t.running && kernel_written_upper(t, kw) && kw < t.out->accepted;
        if (!t.ever_enabled && backlog) vh::counter("enable_with_queued_data");
        else if (!t.running && backlog) vh::counter("reenable_with_queued_data");
        if (t.ever_enabled && !t.running) t.backlog_at_reenable = true;     //! a disable()/enable() cycle happened (classification of a later stall)
        t.running = true; t.ever_enabled = true;
        g->log("T.enable");
    } else {
        if (t.bfd_w) t.bfd_w->disable();
        if (t.bfd_r && t.bfd_r != t.bfd_w) t.bfd_r->disable();
        t.running = false;
        g->log("T.disable");
        vh::counter("disables");
    }
    g->sig.add(on ? 0x61 : 0x62);
}

void run_bfd_case(vh::Rng &r, const BfdCfg &cfg) {
    World w; g = &w; w.r = &r;
    w.thorough = vh::st().args.num("thorough", 0) != 0;
    w.engine = r.chance(1, 4) ? "select" : "epoll";
    w.loop.reset(Loop::New(w.engine));
    w.budget = w.thorough ? (r.chance(1, 8) ? (24u << 20) : (3u << 20)) : (r.chance(1, 10) ? (3u << 20) : (768u << 10));
    w.links.emplace_back(new Link);
    Link &l = *w.links.back();
    TEnd &t = l.t;
    t.link = &l;
    l.t2r.id = w.sid(); l.r2t.id = w.sid();
    t.out = &l.t2r; t.in = &l.r2t;
    l.raw.in = &l.t2r; l.raw.out = &l.r2t;
    int trk = cfg.tr >= 0 ? cfg.tr : (int)r.pick(std::vector<int>{kUnix, kUnix, kPipe, kTcp});
    l.tr = (Transport)trk;
    static const int sbufs[] = {1, 1, 8192, 32768, 0};
    int sb_t = r.pick(sbufs), sb_r = r.pick(sbufs);
    int tfd_r = -1, tfd_w = -1;
    if (l.tr == kUnix) {
        int sv[2];
        if (!unix_pair(sv, sb_t, sb_r)) { vh::counter("setup_failed"); g = nullptr; return; }
        tfd_r = tfd_w = sv[0]; l.raw.rfd = l.raw.wfd = sv[1];
    } else if (l.tr == kTcp) {
        int sv[2];
        if (sb_t == 1) sb_t = 4608;         //! below two segments of receive buffer every window update waits for the persist timer
        if (sb_r == 1) sb_r = 4608;
        if (!tcp_pair(sv, sb_t, sb_r)) { vh::counter("setup_failed"); g = nullptr; return; }
        tfd_r = tfd_w = sv[0]; l.raw.rfd = l.raw.wfd = sv[1];
        tcp_tune(sv[0], false);
    } else {
        static const int psz[] = {4096, 4096, 16384, 65536};
        int a[2], b[2];
        if (!pipe_pair(a, r.pick(psz)) ) { vh::counter("setup_failed"); g = nullptr; return; }
        if (!pipe_pair(b, r.pick(psz)) ) { ::close(a[0]); ::close(a[1]); vh::counter("setup_failed"); g = nullptr; return; }
        tfd_w = a[1]; l.raw.rfd = a[0];     //! T -> R
        tfd_r = b[0]; l.raw.wfd = b[1];     //! R -> T
    }
    t.rfd = tfd_r; t.wfd = tfd_w; t.fd_ok = true;
    static const size_t th[] = {0, 1, 7, 4096};
    if (cfg.threshold_i >= 0) { t.threshold = th[cfg.threshold_i]; t.cons = cfg.cons; } else cfg_rx(t, r);
    t.close_action = (int)r.below(3);
    { static const int hks[] = {0, 0, 1, 1, 2}; t.hk = r.pick(hks); }
    t.running = false; t.ever_enabled = false;
    if (l.tr == kPipe) {
        bool rw = r.chance(1, 3);       //! the repo's own tests initialise both pipe ends read-write
        t.bfd_w = new BufferedFd(w.loop.get());
        t.bfd_w->initialize(tbox::util::Fd(tfd_w), rw ? BufferedFd::kReadWrite : BufferedFd::kWriteOnly);
        t.bfd_r = new BufferedFd(w.loop.get());
        t.bfd_r->initialize(tbox::util::Fd(tfd_r), rw ? BufferedFd::kReadWrite : BufferedFd::kReadOnly);
    } else {
        t.bfd_w = t.bfd_r = new BufferedFd(w.loop.get());
        t.bfd_w->initialize(tbox::util::Fd(tfd_w));
    }
    TEnd *tp = &t;
    t.do_send = [tp](const void *p, size_t n) { return tp->bfd_w ? tp->bfd_w->send(p, n) : false; };
    t.rbuf = [tp]() -> Buffer * { return tp->bfd_r ? tp->bfd_r->getReceiveBuffer() : nullptr; };
    t.do_teardown = [tp](bool in_cb) {
        TEnd &x = *tp;
        if (x.bfd_r) x.bfd_r->disable();
        if (x.bfd_w && x.bfd_w != x.bfd_r) x.bfd_w->disable();
        x.torn = true; x.running = false;
        BufferedFd *bw = x.bfd_w, *br = x.bfd_r;
        x.bfd_w = x.bfd_r = nullptr;
        if (in_cb || g->r->chance(1, 2)) g->loop->runNext([bw, br] { if (bw) delete bw; if (br && br != bw) delete br; });
        else { if (bw) delete bw; if (br && br != bw) delete br; }
    };
    bfd_wire(t);
    w.log(vh::fmt("bfd %s/%s sndbuf(T=%d,R=%d) thr=%zu cons=%d hk=%d:", trname(l.tr), w.engine.c_str(), sb_t, sb_r, t.threshold, t.cons, t.hk));
    w.sig.add(t.hk);
    w.sig.add(trk); w.sig.add(t.threshold); w.sig.add(t.cons); w.sig.add(w.engine == "select");

    bool start_enabled = cfg.start_enabled >= 0 ? cfg.start_enabled != 0 : r.chance(1, 2);
    if (start_enabled) bfd_enable(t, true);
    int steps = (int)r.range(6, 40);
    int close_step = r.chance(45, 100) ? (int)r.range(2, steps) : -1;
    if (cfg.close_kind >= 0) close_step = cfg.close_kind == 0 ? -1 : (int)r.range(2, steps);
    for (int s = 0; s < steps && !l.broken; ++s) {
        if (s == close_step && !l.close_done) {
            if (cfg.close_kind == 1) r_close(l, 0);
            else if (cfg.close_kind == 2) r_close(l, 1);
            else if (cfg.close_kind == 3) t_teardown(t, (int)r.below(3));
            else plan_close(l, r);
        } else if (cfg.size_class >= 0 && s < 3) {
            static const size_t lo[] = {1, 100, 1023, 4000, 60000, 200000}, hi[] = {16, 900, 1025, 9000, 70000, 262144};
            t_send(t, (size_t)r.range(lo[cfg.size_class], hi[cfg.size_class]), "");
        } else if (!t.torn && !t.close_reports && !t.running && r.chance(t.ever_enabled ? 40 : 12, 100)) {
            bfd_enable(t, true);
        } else if (!t.torn && !t.close_reports && t.running && r.chance(3, 100)) {
            bfd_enable(t, false);
        } else if (!t.torn && !t.close_reports && r.chance(2, 100)) {
            uint64_t bt;
            if (!buf_total(t, bt) || bt != t.presented_hi) continue;    //! a lower threshold does not re-present what is already buffered
            cfg_rx(t, r);
            if (t.bfd_r) { TEnd *q = &t; t.bfd_r->setReceiveCallback([q](Buffer &b) { on_rx(*q, b); }, t.threshold); }
            w.log(vh::fmt("T.rxcfg(thr=%zu,cons=%d)", t.threshold, t.cons));
        } else generic_step(l, r, false);
        if (r.chance(55, 100)) w.pump();
    }
    if (!t.torn && !t.close_reports && !t.running) bfd_enable(t, true);
    w.log("drain");
    final_drain();

    bool nontrivial = t.saw_backlog || t.saw_represent || w.saw_close;
    if (t.saw_backlog) vh::counter("cases_with_send_backlog");
    if (t.saw_represent) vh::counter("cases_with_representation");
    if (l.inconclusive) vh::counter("cases_inconclusive");
    vh::note_case(w.sig.h, nontrivial);
    int smax = vh::st().args.first != 0 ? 0 : vh::st().args.mode == "grid" ? 1 : 2;     //! first shard only: leave room for the other legs
    if (vh::want_sample(smax) && nontrivial && t.saw_backlog && t.saw_represent && t.rx > 0 && !t.lenient && !l.broken && l.t2r.accepted > 0
        && l.t2r.verified == l.t2r.accepted && w.script.size() < 900)
        vh::sample(vh::fmt("{\"mode\":\"bfd\",\"script\":%s,\"sent\":%llu,\"peer_got\":%llu,\"peer_wrote\":%llu,\"presented\":%llu,\"consumed\":%llu,"
                           "\"send_complete\":%llu,\"close_reports\":%d}", vh::jstr(w.script).c_str(),
                           (unsigned long long)l.t2r.accepted, (unsigned long long)l.t2r.verified, (unsigned long long)l.r2t.accepted,
                           (unsigned long long)t.presented_hi, (unsigned long long)t.consumed, (unsigned long long)t.sc, t.close_reports), smax);
    // teardown: objects first, then the deferred deletions, then the loop
    w.ending = true;
    bfd_delete(t);
    l.raw.close_all();
    w.pump(); w.pump();
    w.loop.reset();
    g = nullptr;
}

// ---------------------------------------------------------------- mode tcp

struct TcpWorld {
    World w;
    bool unix_family = false;
    std::string path;               //! unix listener path
    uint32_t ip = 0; uint16_t port = 0;
    SockAddr addr;
    TcpServer *server = nullptr;
    TcpClient *client = nullptr;
    TcpAcceptor *acceptor = nullptr;
    TcpConnector *connector = nullptr;
    int raw_listener = -1;
    std::vector<std::pair<TcpServer::ConnToken, Link *>> tokens;
    std::vector<TcpConnection *> owned;     //! connections owned by the harness (acceptor / connector arrangements)
    Link *pending_server_link = nullptr;    //! link whose server side is expected to connect next
    Link *client_link = nullptr;            //! current link of the TcpClient
    int client_fd_candidate = -1;
    size_t threshold = 0; int cons = 4; int hk = 0;
    int sb_t = 0, sb_r = 0;
    int client_generations = 0;
    bool auto_reconnect = false;
    bool use_sink = false;                  //! this case binds / unbinds a receiver (ByteStream::bind) on the TcpClient
    bool sink_bound = false;                //! the harness's last word: bind() (true) or unbind() (false)
    int arrangement = 0;
};
TcpWorld *tw = nullptr;

Link *link_of(const TcpServer::ConnToken &tk) {
    for (auto &p : tw->tokens) if (p.first == tk) return p.second;
    return nullptr;
}

bool verify_sock_fd(int fd, bool unix_family) {
    if (fd < 0 || !is_socket(fd)) return false;
    int dom = 0; socklen_t dl = sizeof dom;
    if (getsockopt(fd, SOL_SOCKET, SO_DOMAIN, &dom, &dl) != 0) return false;
    if (dom != (unix_family ? AF_UNIX : AF_INET)) return false;
    for (auto &l : tw->w.links) {
        if (l->t.fd_ok && !l->t.torn && l->t.rfd == fd) return false;
        if (l->has_t2 && l->t2.fd_ok && !l->t2.torn && l->t2.rfd == fd) return false;
        if (l->has_raw && (l->raw.rfd == fd)) return false;
    }
    if (fd == tw->raw_listener) return false;
    return true;
}

Link *new_link(Transport tr) {
    World &w = tw->w;
    w.links.emplace_back(new Link);
    Link &l = *w.links.back();
    l.idx = (int)w.links.size() - 1;
    l.tr = tr;
    l.t.link = &l; l.t2.link = &l;
    l.t2r.id = w.sid(); l.r2t.id = w.sid();
    l.t.out = &l.t2r; l.t.in = &l.r2t;
    l.raw.in = &l.t2r; l.raw.out = &l.r2t;
    l.t.threshold = tw->threshold; l.t.cons = tw->cons;
    l.t.hk = l.t2.hk = tw->hk;
    return &l;
}

//! the server side of link l is connection `tk` of the TcpServer
void bind_server_end(TEnd &t, const TcpServer::ConnToken &tk) {
    TcpServer *srv = tw->server;
    t.do_send = [srv, tk](const void *p, size_t n) { return srv->send(tk, p, n); };
    t.rbuf = [srv, tk]() -> Buffer * { return srv->getClientReceiveBuffer(tk); };
    TEnd *tp = &t;
    t.do_teardown = [srv, tk, tp](bool) { tp->torn = true; tp->running = false; bool ok = srv->disconnect(tk); if (!ok) vh::counter("disconnect_returned_false"); };
    t.do_shutdown_wr = [srv, tk] { return srv->shutdown(tk, SHUT_WR); };
}

//! A receiver bound with TcpClient::bind(): from bind() to unbind() it gets the inbound bytes instead of the receive callback (it takes
//! everything, so it counts as consuming all it is given); after unbind() it must never be handed anything again, on this connection or the next
struct ClientSink : public ByteStream {
    void setReceiveCallback(const ReceiveCallback &, size_t) override { }
    void setSendCompleteCallback(const SendCompleteCallback &) override { }
    void bind(ByteStream *) override { }
    void unbind() override { }
    Buffer *getReceiveBuffer() override { return nullptr; }
    bool send(const void *p, size_t n) override {
        if (g->ending) return true;
        vh::counter("receiver_bound_forwards");
        if (!tw->sink_bound) {
            vh::viol("bind/bytes-forwarded-to-unbound-receiver", vh::fmt("%zu bytes handed to a receiver after TcpClient::unbind() (connection generation %d)", n, tw->client_generations));
            return true;
        }
        Link *l = tw->client_link;
        if (!l) { vh::viol("callback/unknown-connection", "bound receiver of the TcpClient given bytes without a connection"); return true; }
        TEnd &t = tw->arrangement == 3 ? l->t2 : l->t;
        if (l->broken) return true;
        long bad = fdiff(t.in->id, t.consumed, (const uint8_t *)p, n);
        uint64_t hi = t.consumed + n;
        if (bad >= 0) {
            vh::viol("bind/content-mismatch", vh::fmt("%s: bound receiver should get stream offsets [%llu,%llu) but differs at offset %llu", t.nm,
                     (unsigned long long)t.consumed, (unsigned long long)hi, (unsigned long long)(t.consumed + bad)));
            l->broken = true;
        } else if (hi > t.in->accepted) {
            vh::viol("bind/more-than-written", vh::fmt("%s: bound receiver given up to offset %llu, the peer wrote only %llu bytes", t.nm,
                     (unsigned long long)hi, (unsigned long long)t.in->accepted));
            l->broken = true;
        } else if (hi < t.presented_hi) {
            vh::viol("bind/presented-bytes-vanished", vh::fmt("%s: previously presented up to %llu, bound receiver given only up to %llu", t.nm,
                     (unsigned long long)t.presented_hi, (unsigned long long)hi));
            l->broken = true;
        }
        if (l->broken) return true;
        vh::counter("bytes_forwarded_to_bound_receiver", n);
        if (hi > t.presented_hi) vh::counter("bytes_presented_new", hi - t.presented_hi);
        t.presented_hi = hi; t.in->verified = hi; t.consumed = hi; t.prefix_likely = false; t.snap_ok = false;
        return true;
    }
};
ClientSink g_client_sink;

void client_sink_toggle(const char *where, unsigned pc) {
    if (!tw->use_sink || !tw->client || !g->r->chance(pc, 100)) return;
    if (tw->sink_bound) { tw->client->unbind(); tw->sink_bound = false; vh::counter(std::string("receiver_unbound_") + where); g->log(vh::fmt("[C.unbind@%s]", where)); }
    else { tw->client->bind(&g_client_sink); tw->sink_bound = true; vh::counter(std::string("receiver_bound_") + where); g->log(vh::fmt("[C.bind@%s]", where)); }
}

void client_rx_cb(Buffer &b) {
    Link *l = tw->client_link;
    if (!l) { vh::viol("callback/unknown-connection", "TcpClient receive callback without a connection"); b.hasReadAll(); return; }
    on_rx(tw->arrangement == 3 ? l->t2 : l->t, b);
}

void bind_client_end(TEnd &t) {
    TcpClient *c = tw->client;
    t.do_rxcfg = [c](size_t thr) { c->setReceiveCallback(client_rx_cb, thr); tw->threshold = thr; };    //! also the value for later connections
    t.do_send = [c](const void *p, size_t n) { return c->send(p, n); };
    t.rbuf = [c]() -> Buffer * { return c->getReceiveBuffer(); };
    TEnd *tp = &t;
    t.do_teardown = [c, tp](bool) { tp->torn = true; tp->running = false; c->stop(); };
    t.do_shutdown_wr = [c] { return c->shutdown(SHUT_WR); };
}

void bind_conn_end(TEnd &t, TcpConnection *conn) {
    TEnd *tp = &t;
    t.do_send = [conn, tp](const void *p, size_t n) { return tp->torn ? false : conn->send(p, n); };
    t.rbuf = [conn, tp]() -> Buffer * { return tp->torn ? nullptr : conn->getReceiveBuffer(); };
    t.do_teardown = [conn, tp](bool) {
        tp->torn = true; tp->running = false;
        conn->disconnect();
        auto &ow = tw->owned;
        ow.erase(std::remove(ow.begin(), ow.end(), conn), ow.end());
        g->loop->runNext([conn] { delete conn; });
    };
    t.do_shutdown_wr = [conn] { return conn->shutdown(SHUT_WR); };
    conn->setReceiveCallback([tp](Buffer &b) { on_rx(*tp, b); }, t.threshold);
    t.do_rxcfg = [conn, tp](size_t thr) { if (!tp->torn) conn->setReceiveCallback([tp](Buffer &b) { on_rx(*tp, b); }, thr); };
    conn->setSendCompleteCallback([tp] { on_sc(*tp); });
    conn->setDisconnectedCallback([conn, tp] {
        on_close(*tp, "disconnected");
        if (!tp->torn) {        //! the owner destroys the connection object, deferred (we are inside its callback)
            tp->torn = true;
            auto &ow = tw->owned;
            ow.erase(std::remove(ow.begin(), ow.end(), conn), ow.end());
            g->loop->runNext([conn] { delete conn; });
        }
    });
    SocketFd sfd = conn->socketFd();
    t.rfd = t.wfd = sfd.get();
    t.fd_ok = t.rfd >= 0;
    if (t.fd_ok && !tw->unix_family) tcp_tune(t.rfd, false);
}

bool make_listen_addr(vh::Rng &r) {
    if (tw->unix_family) {
        static int seq = 0;
        // under the run's scratch directory when that fits into sun_path (108 bytes), else /var/tmp
        const std::string &od = vh::st().args.out;
        std::string base = (!od.empty() && od.size() < 70) ? od : std::string("/var/tmp");
        tw->path = vh::fmt("%s/vc06.%d.%d.sock", base.c_str(), (int)getpid(), ++seq);
        ::unlink(tw->path.c_str());
        tw->addr = SockAddr(DomainSockPath(tw->path));
        return true;
    }
    (void)r;
    tw->ip = my_loopback_ip();
    return true;
}

//! raw client connects to the tbox listener (TcpServer / TcpAcceptor); one at a time
int raw_connect() {
    if (tw->unix_family) return unix_connect(tw->path, tw->sb_r);
    return tcp_connect(tw->ip, tw->port, tw->sb_r);
}

void set_small_sndbuf_on_listener(int fd) {
    if (fd < 0 || !is_socket(fd)) return;
    if (tw->sb_t > 0) set_bufs(fd, tw->sb_t, tw->unix_family ? 0 : tw->sb_t);
    if (!tw->unix_family) tcp_tune(fd, true);
}

//! pump until cond() or the patience is over
template <typename F> bool pump_until(F cond) {
    for (int i = 0; i < 4000; ++i) {
        if (cond()) return true;
        g->pump();
        if (cond()) return true;
        if (i > 20) { struct timespec ts = {0, 500000}; nanosleep(&ts, nullptr); }
    }
    return false;
}

//! accept on the raw listener and attach the socket to the newest link that lacks its raw end
void raw_accept_pending() {
    if (tw->raw_listener < 0) return;
    for (;;) {
        int fd = ::accept4(tw->raw_listener, nullptr, nullptr, SOCK_NONBLOCK | SOCK_CLOEXEC);
        if (fd < 0) return;
        Link *target = nullptr;
        for (auto &l : tw->w.links) if (l->has_raw && l->raw.rfd < 0 && !l->raw.closed) { target = l.get(); break; }
        if (!target) {
            //! connection whose tbox side has not reported yet: park it on a fresh link, the connected callback picks it up
            target = new_link(tw->unix_family ? kUnix : kTcp);
            target->t.running = false;      //! not connected yet from the model's point of view
            target->t.can_send = false;
            tw->pending_server_link = target;
        }
        target->raw.rfd = target->raw.wfd = fd;
        vh::counter("raw_accepts");
    }
}

void client_on_connected() {
    ++tw->client_generations;
    vh::counter("tcp_client_connected");
    Link *l = nullptr;
    if (tw->arrangement == 3) {
        l = tw->client_link;            //! server <-> client: the single link
        if (!l) { l = new_link(tw->unix_family ? kUnix : kTcp); tw->client_link = l; l->has_raw = false; l->has_t2 = true; }
        TEnd &t = l->t2;
        t.nm = "C"; t.out = &l->r2t; t.in = &l->t2r;
        t.threshold = tw->threshold; t.cons = tw->cons;
        bind_client_end(t);
        int fd = tw->client_fd_candidate;
        if (verify_sock_fd(fd, tw->unix_family)) { t.rfd = t.wfd = fd; t.fd_ok = true; if (!tw->unix_family) tcp_tune(fd, false); }
        g->log("[C.connected]");
        return;
    }
    if (tw->pending_server_link && tw->pending_server_link->t.do_send == nullptr) { l = tw->pending_server_link; tw->pending_server_link = nullptr; }
    else { l = new_link(tw->unix_family ? kUnix : kTcp); l->raw.rfd = l->raw.wfd = -1; }
    tw->client_link = l;
    TEnd &t = l->t;
    t.nm = "C"; t.running = true; t.can_send = true;
    bind_client_end(t);
    int fd = tw->client_fd_candidate;
    if (verify_sock_fd(fd, tw->unix_family)) { t.rfd = t.wfd = fd; t.fd_ok = true; if (!tw->unix_family) tcp_tune(fd, false); } else vh::counter("fd_not_identified");
    g->log(vh::fmt("[C.connected#%d]", tw->client_generations));
    if (tw->client_generations > 1) vh::counter("tcp_client_reconnected");
    client_sink_toggle("while-connected", 30);
}

//! Length-prefixed framing as users do it: the receive callback is registered again on the live connection with another threshold
//! (header size, then body size, ...), then the peer writes. Data that arrives afterwards and reaches the CURRENT threshold must be
//! presented without waiting for more. Only done when nothing is buffered unpresented (a lower threshold alone re-presents nothing).
void rethreshold_step(Link &l, vh::Rng &r) {
    TEnd &t = l.t;
    if (!l.has_raw || l.raw.rfd < 0 || l.raw.closed || l.raw.wr_shut || l.close_done || !t.do_rxcfg || t.torn || t.close_reports || t.in_cb) return;
    uint64_t bt;
    if (!buf_total(t, bt) || bt != t.presented_hi) return;
    static const size_t ths[] = {0, 1, 4, 7, 8, 16, 64, 100, 1024, 4096};
    size_t old = t.threshold, nw = r.pick(ths);
    if (nw == old) nw = old >= 8 ? old / 2 : old + 9;
    bool client = tw->client != nullptr;
    t.do_rxcfg(nw);
    t.threshold = nw;
    bool lowered = nw < old;
    vh::counter(std::string(client ? "tcpclient" : "tcpconnection") + (lowered ? "_threshold_lowered_while_connected" : "_threshold_raised_while_connected"));
    g->log(vh::fmt("%s.rxcfg(thr %zu->%zu)", t.nm, old, nw));
    g->sig.add(0x74); g->sig.add(nw);
    if (!r.chance(3, 4)) return;
    uint64_t unconsumed = bt - t.consumed;
    uint64_t lo = nw > unconsumed ? nw - unconsumed : 1;
    if (lo == 0) lo = 1;
    uint64_t hi = (lowered && old > unconsumed + lo) ? old - unconsumed - 1 : lo + 300;    //! reaches the new threshold, not the old one
    if (hi > lo + 5000) hi = lo + 5000;
    size_t d = (size_t)r.range((int64_t)lo, (int64_t)hi);
    size_t wr = r_write(l, d);
    g->log(vh::fmt("R.write(%zu)=%zu", d, wr));
    g->sig.add(d);
    if (wr == 0) return;
    bool arrived = false;
    for (int i = 0; i < 300 && !arrived; ++i) {
        g->pump();
        uint64_t now;
        if (t.torn || t.close_reports || l.broken || !buf_total(t, now)) return;
        arrived = now == l.r2t.accepted;
        if (!arrived && i >= 3) { struct timespec ts = {0, 500000}; nanosleep(&ts, nullptr); }
    }
    if (!arrived) { vh::counter("rethreshold_data_not_arrived_in_time"); return; }
    vh::counter("rethreshold_presentation_checked");
    if (lowered && l.r2t.accepted - t.consumed >= nw && l.r2t.accepted - t.consumed < old) vh::counter("rethreshold_between_new_and_old_threshold");
    if (t.presented_hi != l.r2t.accepted && !(l.r2t.accepted - t.consumed < t.threshold)) {
        vh::viol("recv/not-presented", vh::fmt("%s: threshold re-registered %zu -> %zu on the live connection, then %zu bytes arrived: %llu received, %llu consumed, "
                 "only %llu presented although at least the current threshold is readable", t.nm, old, nw, wr, (unsigned long long)l.r2t.accepted,
                 (unsigned long long)t.consumed, (unsigned long long)t.presented_hi));
        l.broken = true;
    }
}

void run_tcp_case(vh::Rng &r) {
    TcpWorld T; tw = &T;
    World &w = T.w; g = &w; w.r = &r;
    w.thorough = vh::st().args.num("thorough", 0) != 0;
    w.engine = r.chance(1, 4) ? "select" : "epoll";
    w.loop.reset(Loop::New(w.engine));
    w.budget = w.thorough ? (r.chance(1, 8) ? (24u << 20) : (3u << 20)) : (r.chance(1, 10) ? (3u << 20) : (768u << 10));
    T.unix_family = r.chance(3, 10);
    T.arrangement = (int)r.pick(std::vector<int>{0, 0, 0, 1, 1, 2, 2, 3, 3});      //! 0 server/raw 1 client/raw 2 acceptor|connector + own connection 3 server/client
    static const int sbufs[] = {4608, 16384, 65536, 0};
    T.sb_t = r.pick(sbufs); T.sb_r = r.pick(sbufs);
    { TEnd tmp; cfg_rx(tmp, r); T.threshold = tmp.threshold; T.cons = tmp.cons; }
    { static const int hks[] = {0, 0, 1, 1, 2}; T.hk = r.pick(hks); }
    bool conn_active = r.chance(1, 2);      //! arrangement 2: connector (active) or acceptor (passive)
    w.log(vh::fmt("tcp arr=%d%s %s/%s sndbuf(T=%d,R=%d) thr=%zu cons=%d hk=%d:", T.arrangement, T.arrangement == 2 ? (conn_active ? "c" : "a") : "",
                  T.unix_family ? "unix" : "inet", w.engine.c_str(), T.sb_t, T.sb_r, T.threshold, T.cons, T.hk));
    w.sig.add(T.hk);
    w.sig.add(0x7c9); w.sig.add(T.arrangement); w.sig.add(T.unix_family); w.sig.add(T.threshold); w.sig.add(T.cons); w.sig.add(conn_active);
    Transport tr = T.unix_family ? kUnix : kTcp;
    make_listen_addr(r);
    bool ok = true;
    bool tbox_listens = T.arrangement == 0 || T.arrangement == 3 || (T.arrangement == 2 && !conn_active);

    // ---- listener side
    if (tbox_listens) {
        for (int attempt = 0; attempt < 30; ++attempt) {
            if (!T.unix_family) { T.port = free_port(T.ip); T.addr = SockAddr(IPAddress(T.ip), T.port); }
            int cand = lowest_free_fd();
            bool inited;
            if (T.arrangement == 2) {
                T.acceptor = new TcpAcceptor(w.loop.get());
                inited = T.acceptor->initialize(T.addr, 8);
                if (!inited) { delete T.acceptor; T.acceptor = nullptr; }
            } else {
                T.server = new TcpServer(w.loop.get());
                inited = T.server->initialize(T.addr, 8);
                if (!inited) { delete T.server; T.server = nullptr; }
            }
            if (inited) { set_small_sndbuf_on_listener(cand); break; }
            vh::counter("listen_retry");
        }
        if (!T.server && !T.acceptor) ok = false;
    } else {
        T.raw_listener = T.unix_family ? unix_listen(T.path, T.sb_r) : tcp_listen(T.ip, T.port, T.sb_r);
        if (T.raw_listener < 0) ok = false;
        if (!T.unix_family) T.addr = SockAddr(IPAddress(T.ip), T.port);
    }
    if (!ok) { vh::counter("setup_failed"); }

    if (ok && T.server) {
        T.server->setConnectedCallback([](const TcpServer::ConnToken &tk) {
            vh::counter("tcp_server_connected");
            Link *l = tw->pending_server_link; tw->pending_server_link = nullptr;
            if (!l) { vh::counter("unexpected_connection"); return; }
            tw->tokens.push_back(std::make_pair(tk, l));
            TEnd &t = l->t; t.nm = l->has_t2 ? "S" : "T";
            bind_server_end(t, tk);
            int fd = g->prepass_free_fd;
            if (verify_sock_fd(fd, tw->unix_family)) { t.rfd = t.wfd = fd; t.fd_ok = true; if (tw->sb_t > 0) set_bufs(fd, tw->sb_t, 0); if (!tw->unix_family) tcp_tune(fd, false); }
            else vh::counter("fd_not_identified");
            g->log(vh::fmt("[%s%d.connected]", t.nm, l->idx));
        });
        T.server->setDisconnectedCallback([](const TcpServer::ConnToken &tk) {
            Link *l = link_of(tk);
            if (!l) { vh::viol("callback/unknown-token", "disconnected callback for a token that was never announced"); return; }
            on_close(l->t, "disconnected");
        });
        T.server->setReceiveCallback([](const TcpServer::ConnToken &tk, Buffer &b) {
            Link *l = link_of(tk);
            if (!l) { vh::viol("callback/unknown-token", "receive callback for a token that was never announced"); b.hasReadAll(); return; }
            on_rx(l->t, b);
        }, T.threshold);
        T.server->setSendCompleteCallback([](const TcpServer::ConnToken &tk) {
            Link *l = link_of(tk);
            if (!l) { vh::viol("callback/unknown-token", "send-complete callback for a token that was never announced"); return; }
            on_sc(l->t);
        });
        if (!T.server->start()) { ok = false; vh::counter("setup_failed"); }
    }
    if (ok && T.acceptor) {
        T.acceptor->setNewConnectionCallback([](TcpConnection *conn) {
            vh::counter("tcp_acceptor_connected");
            Link *l = tw->pending_server_link; tw->pending_server_link = nullptr;
            if (!l) { vh::counter("unexpected_connection"); g->loop->runNext([conn] { delete conn; }); return; }
            tw->owned.push_back(conn);
            l->t.nm = "T";
            bind_conn_end(l->t, conn);
            g->log(vh::fmt("[T%d.accepted]", l->idx));
        });
        if (!T.acceptor->start()) { ok = false; vh::counter("setup_failed"); }
    }

    // ---- connecting side
    auto connect_raw_client = [&]() -> Link * {
        Link *l = new_link(tr);
        T.pending_server_link = l;
        int fd = raw_connect();
        if (fd < 0) { l->broken = true; T.pending_server_link = nullptr; vh::counter("setup_failed"); return nullptr; }
        l->raw.rfd = l->raw.wfd = fd;
        if (!pump_until([&] { return T.pending_server_link == nullptr; })) { l->inconclusive = true; T.pending_server_link = nullptr; vh::counter("setup_failed"); return nullptr; }
        vh::counter("connections");
        return l;
    };
    int want_links = 1;
    if (ok) {
        if (T.arrangement == 0) {
            want_links = (int)r.range(1, 3);
            for (int i = 0; i < want_links; ++i) connect_raw_client();
        } else if (T.arrangement == 2 && !conn_active) {
            connect_raw_client();
        } else if (T.arrangement == 1 || T.arrangement == 3) {
            T.client = new TcpClient(w.loop.get());
            T.client->initialize(T.addr);
            T.auto_reconnect = T.arrangement == 1 && r.chance(1, 2);
            T.client->setAutoReconnect(T.auto_reconnect);
            T.client->setConnectedCallback([] { client_on_connected(); });
            T.client->setDisconnectedCallback([] {
                Link *l = tw->client_link;
                if (!l) { vh::viol("callback/unknown-connection", "TcpClient disconnected callback without a connection"); return; }
                TEnd &t = tw->arrangement == 3 ? l->t2 : l->t;
                on_close(t, "disconnected");
                if (tw->arrangement != 3) tw->client_link = nullptr;
                if (tw->auto_reconnect) tw->client_fd_candidate = g->in_pass ? g->prepass_free_fd : -1;
                client_sink_toggle("while-disconnected", 60);
            });
            T.client->setReceiveCallback(client_rx_cb, T.threshold);
            T.client->setSendCompleteCallback([] {
                Link *l = tw->client_link;
                if (!l) { vh::counter("send_complete_after_teardown_or_close"); return; }
                on_sc(tw->arrangement == 3 ? l->t2 : l->t);
            });
            if (T.arrangement == 3) {
                Link *l = new_link(tr);
                l->has_raw = false; l->has_t2 = true;
                l->t2.nm = "C"; l->t2.out = &l->r2t; l->t2.in = &l->t2r; l->t2.threshold = T.threshold; l->t2.cons = T.cons;
                T.client_link = l; T.pending_server_link = l;
            }
            T.use_sink = T.arrangement == 1 && r.chance(1, 3); T.sink_bound = false;
            client_sink_toggle("before-start", 50); client_sink_toggle("before-start", 40);
            T.client_fd_candidate = lowest_free_fd();
            if (!T.client->start()) { ok = false; vh::counter("setup_failed"); }
            else {
                if (verify_sock_fd(T.client_fd_candidate, T.unix_family) && T.sb_t > 0) set_bufs(T.client_fd_candidate, T.sb_t, 0);
                bool up = pump_until([&] {
                    raw_accept_pending();
                    if (T.arrangement == 3) return T.client_generations > 0 && T.pending_server_link == nullptr;
                    return T.client_generations > 0 && T.client_link && T.client_link->raw.rfd >= 0;
                });
                if (!up) { ok = false; vh::counter("setup_failed"); }
                else vh::counter("connections");
            }
        } else {    // arrangement 2, connector
            T.connector = new TcpConnector(w.loop.get());
            T.connector->initialize(T.addr);
            Link *l = new_link(tr);
            l->raw.rfd = l->raw.wfd = -1;
            bool connected = false;
            bool *pc = &connected;
            T.connector->setConnectedCallback([l, pc](TcpConnection *conn) {
                vh::counter("tcp_connector_connected");
                tw->owned.push_back(conn);
                l->t.nm = "T";
                bind_conn_end(l->t, conn);
                *pc = true;
                g->log("[T.connected]");
            });
            int cand = lowest_free_fd();
            if (!T.connector->start()) { ok = false; vh::counter("setup_failed"); }
            else {
                if (verify_sock_fd(cand, T.unix_family) && T.sb_t > 0) set_bufs(cand, T.sb_t, 0);
                bool up = pump_until([&] { raw_accept_pending(); return connected && l->raw.rfd >= 0; });
                if (!up) { ok = false; vh::counter("setup_failed"); }
                else vh::counter("connections");
            }
        }
    }

    // ---- script
    if (ok) {
        int steps = (int)r.range(8, 45);
        bool want_close = r.chance(55, 100);
        for (int s = 0; s < steps; ++s) {
            std::vector<Link *> live;
            for (auto &l : w.links) if (!l->broken && !l->inconclusive && (l->t.do_send || l->has_t2)) live.push_back(l.get());
            if (live.empty()) break;
            Link &l = *live[r.below(live.size())];
            unsigned k = (unsigned)r.below(100);
            if (k < 3 && T.arrangement == 0 && (int)w.links.size() < 4) {
                connect_raw_client(); w.log("R.connect");
            } else if (l.t.do_rxcfg && !l.has_t2 && r.chance(T.arrangement == 1 ? 14 : 7, 100)) {
                rethreshold_step(l, r);
            } else if (k < 5 && !l.has_t2 && l.t.do_shutdown_wr && !l.t.torn && !l.t.close_reports && !l.t.wr_shut && !l.close_done) {
                //! tbox half-close, only when the model knows everything queued has been flushed
                uint64_t kw;
                if (kernel_written_upper(l.t, kw) && l.tr != kTcp && kw == l.t2r.accepted && l.t.sc_plan.empty() && l.t.rx_plan.empty()) {
                    l.t.wr_shut = true;
                    l.t.do_shutdown_wr();
                    w.log(vh::fmt("%s.shutdown(WR)", l.t.nm)); vh::counter("tbox_half_close");
                }
            } else if (k < 7 && T.arrangement == 0 && s > steps / 2 && r.chance(1, 3)) {
                //! stop() tears every connection down (outside callbacks), start() accepts again
                for (auto &p : T.tokens) { p.second->t.torn = true; p.second->t.running = false; p.second->close_done = true; }
                T.server->stop();
                T.tokens.clear();
                w.saw_close = true;
                bool restarted = T.server->start();
                w.log("S.stop+start"); vh::counter("server_stop_start");
                if (restarted && r.chance(1, 2) && (int)w.links.size() < 5) connect_raw_client();
            } else generic_step(l, r, want_close && s > 3);
            raw_accept_pending();
            if (r.chance(55, 100)) { w.pump(); raw_accept_pending(); }
        }
        w.log("drain");
        // a reconnecting client produces a new connection after the peer close: let it come up so that its link is drained too
        final_drain();
        raw_accept_pending();
        if (T.auto_reconnect && T.client_generations > 0) {
            int gen = T.client_generations;
            bool closed_any = false;
            for (auto &l : w.links) if (l->t.close_reports) closed_any = true;
            if (closed_any) {
                pump_until([&] { raw_accept_pending(); return T.client_generations > gen || (T.client_link && T.client_link->raw.rfd >= 0); });
                if (T.client_link && T.client_link->raw.rfd >= 0 && !T.client_link->t.torn) {
                    Link &nl = *T.client_link;
                    t_send(nl.t, pick_size(r, false), "");
                    r_write(nl, pick_size(r, false));
                    final_drain();
                    vh::counter("reconnected_link_exercised");
                }
            }
        }
    }

    bool backlog = false, repres = false, incon = false; uint64_t rxs = 0;
    for (auto &l : w.links) {
        backlog |= l->t.saw_backlog | l->t2.saw_backlog; repres |= l->t.saw_represent | l->t2.saw_represent; incon |= l->inconclusive;
        rxs += l->t.rx + l->t2.rx;
    }
    bool nontrivial = ok && (backlog || repres || w.saw_close);
    if (backlog) vh::counter("cases_with_send_backlog");
    if (repres) vh::counter("cases_with_representation");
    if (incon) vh::counter("cases_inconclusive");
    vh::note_case(w.sig.h, nontrivial);
    if (vh::st().args.first == 0 && vh::want_sample(2) && nontrivial && rxs > 0 && w.saw_close && backlog && w.script.size() < 900) {
        std::string ls = "[";
        for (auto &l : w.links) {
            if (ls.size() > 1) ls += ",";
            ls += vh::fmt("{\"sent\":%llu,\"peer_got\":%llu,\"peer_wrote\":%llu,\"presented\":%llu,\"close_reports\":%d,\"send_complete\":%llu}",
                          (unsigned long long)l->t2r.accepted, (unsigned long long)l->t2r.verified, (unsigned long long)l->r2t.accepted,
                          (unsigned long long)l->t.presented_hi, l->t.close_reports, (unsigned long long)l->t.sc);
        }
        ls += "]";
        vh::sample(vh::fmt("{\"mode\":\"tcp\",\"script\":%s,\"links\":%s}", vh::jstr(w.script).c_str(), ls.c_str()), 2);
    }

    // ---- teardown (outside callbacks): tbox objects, deferred deletions, raw descriptors, loop
    w.ending = true;
    if (T.client) { T.client->stop(); }
    if (T.server) { T.server->stop(); }
    for (auto *c : T.owned) { c->disconnect(); }
    w.pump();
    for (auto *c : T.owned) delete c;
    T.owned.clear();
    if (T.connector) { T.connector->stop(); }
    w.pump();
    delete T.client; delete T.server; delete T.acceptor; delete T.connector;
    for (auto &l : w.links) l->raw.close_all();
    if (T.raw_listener >= 0) ::close(T.raw_listener);
    if (T.unix_family) ::unlink(T.path.c_str());
    w.pump(); w.pump();
    w.loop.reset();
    g = nullptr; tw = nullptr;
}

}  // namespace

int main(int argc, char **argv) {
    signal(SIGPIPE, SIG_IGN);
    return vh::run(argc, argv, [](uint64_t idx, vh::Rng &r) {
        const std::string &m = vh::st().args.mode;
        if (m == "tcp") run_tcp_case(r);
        else if (m == "grid") {
            //! 3 transports x 6 send-size classes x 2 (enabled at start or not) x 4 thresholds x 5 consumption patterns x 4 close kinds
            BfdCfg c; uint64_t i = idx;
            c.tr = (int)(i % 3); i /= 3;
            c.size_class = (int)(i % 6); i /= 6;
            c.start_enabled = (int)(i % 2); i /= 2;
            c.threshold_i = (int)(i % 4); i /= 4;
            c.cons = (int)(i % 5); i /= 5;
            c.close_kind = (int)(i % 4);
            run_bfd_case(r, c);
        } else run_bfd_case(r, BfdCfg());
    });
}
