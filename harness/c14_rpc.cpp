// C14 (Rpc half): every request issued with a completion callback completes exactly once - with the matching
// response if it arrives before the deadline, otherwise with the timeout error; duplicate, late and
// unknown-id responses are ignored.
//
// The real Rpc runs on a real Loop under the virtual monotonic clock, over one of the three real framings.
// Everything is observed at the API boundary: the completion callbacks, the service callbacks, and the
// frames the Rpc hands to the send callback (parsed by the harness with its own JSON parse).
//
// modes
//   rpc   the harness is the peer: it answers (or not) with matching / duplicate / late / unknown-id /
//         wrong-type-id / out-of-range-id responses, alone or in batches, delivered whole or in pieces with
//         clock advances in between, sometimes from inside the send callback (response arrives before
//         request() has returned); callbacks may issue follow-up requests (re-entrancy).
//   pair  two Rpc endpoints joined by byte queues (random segmentation, frames may be lost), each with
//         synchronous, asynchronous (answered later, twice, or never), relaying and missing services; both sides
//         issue requests, so ids collide across directions.
//
// Oracle (lock-step model, per endpoint): id -> pending request. When a frame has been delivered completely,
// each response in it whose id is an integer equal to a pending id must produce exactly that request's
// callback, at once, with the frame's error code / result; every other response produces nothing. While the
// clock advances only timeouts may complete a request: error code kRequestTimeout, not before more than
// (N-1) s and not after N s have passed since request() (N = timeout_sec; the ring has 1 s granularity).
// At the end the clock is advanced past every deadline and every callback count must be exactly 1.
#include "c14_common.hpp"

#include <tbox/jsonrpc/rpc.h>
#include <tbox/jsonrpc/inner_types.h>
#include <tbox/event/loop.h>
#include <tbox/event/verif_hooks.h>

#include <deque>
#include <algorithm>

using namespace c14;
using tbox::event::Loop;
using tbox::jsonrpc::Rpc;

namespace {

uint64_t g_now = 5000000;
uint64_t clock_fn() { return g_now; }

const int kTimeoutCode = tbox::jsonrpc::ErrorCode::kRequestTimeout;
const int kNoMethodCode = tbox::jsonrpc::ErrorCode::kMethodNotFound;

bool g_stop = false;        //! first violation ends the case (the model is out of step afterwards)
std::string g_script;       //! the history so far (witness)
void bad(const std::string &key, const std::string &detail) { vh::viol(key, detail); g_stop = true; }

//! what the model knows about one JSON-RPC message on the wire
struct MM {
    char kind = 'X';            //! 'Q' request/notification, 'R' result, 'E' error, 'X' anything else (ignored by a receiver)
    bool id_ok = false;         //! id is a JSON integer representable as int (the only ids an Rpc ever issues)
    int id = 0;
    std::string method;
    Json payload;
    int errcode = 0;
    std::string id_text;        //! how the id was spelled (witness)
    bool id_wide = false;       //! id is a JSON integer outside the range of int
    int id_low = 0;             //! its low 32 bits
};

MM parse_mm(const Json &j) {
    MM m;
    if (!j.is_object()) return m;
    auto ver = j.find("jsonrpc");
    if (ver == j.end() || !ver->is_string() || ver->get<std::string>() != "2.0") return m;
    auto idf = j.find("id");
    if (idf != j.end()) {
        m.id_text = idf->dump();
        if (idf->is_number_integer()) {
            if (idf->is_number_unsigned()) { uint64_t v = idf->get<uint64_t>(); if (v <= (uint64_t)INT_MAX) { m.id_ok = true; m.id = (int)v; } else { m.id_wide = true; m.id_low = (int)(uint32_t)v; } }
            else { int64_t v = idf->get<int64_t>(); if (v >= INT_MIN && v <= INT_MAX) { m.id_ok = true; m.id = (int)v; } else { m.id_wide = true; m.id_low = (int)(uint32_t)(uint64_t)v; } }
        }
    }
    if (j.contains("method")) {
        if (!j["method"].is_string()) return m;
        m.kind = 'Q'; m.method = j["method"].get<std::string>();
        if (j.contains("params")) m.payload = j["params"];
        if (!m.id_ok) m.id = 0;
    } else if (j.contains("result")) {
        m.kind = 'R'; m.payload = j["result"];
    } else if (j.contains("error")) {
        const Json &e = j["error"];
        if (!e.is_object() || !e.contains("code") || !e["code"].is_number_integer()) return m;
        m.kind = 'E'; m.errcode = e["code"].get<int>();
    }
    return m;
}

struct Frame {
    std::string bytes;
    std::vector<MM> msgs;
};

struct Req {
    int id = 0;
    std::string method;
    Json params;
    uint64_t issued_at = 0;
    int cb_count = 0;
    bool model_done = false;
    bool chain = false;
    int last_errcode = 0;
};

struct Entry {
    enum T { ISSUE, CB, SVC, SENT } t;
    int q = -1;                 //! ISSUE/CB: request index
    int id = 0;                 //! SVC
    int errcode = 0;            //! CB
    std::string method;         //! SVC
    Json js;                    //! CB result / SVC params
    std::string text() const {
        std::string d = js.dump(-1, ' ', false, Json::error_handler_t::replace);
        switch (t) {
            case ISSUE: return vh::fmt("issue(req#%d)", q);
            case CB: return vh::fmt("callback(req#%d,errcode=%d,result=%s)", q, errcode, show(d, 80).c_str());
            case SVC: return vh::fmt("service(%s,id=%d,params=%s)", show(method, 30).c_str(), id, show(d, 80).c_str());
            default: return "sent-frame";
        }
    }
};

struct AsyncJob { int id; Json params; int answered = 0; };

struct Endpoint {
    std::string name;
    int kind = PK_RAW;
    uint16_t magic = 0;
    int N = 1;
    std::unique_ptr<Proto> proto;
    std::unique_ptr<Rpc> rpc;
    std::unique_ptr<Driver> drv;

    std::vector<Req> reqs;
    std::vector<Entry> log;
    size_t mark = 0;                        //! log position up to which the model has looked
    std::map<int, int> pending;             //! model: id -> request index
    std::vector<Frame> outbox;              //! frames handed to the send callback
    size_t out_taken = 0;
    std::vector<AsyncJob> jobs;

    std::deque<Frame> inq;                  //! frames in flight towards this endpoint
    size_t in_front_fed = 0;                //! bytes of inq.front() already delivered

    int issuing = -1;
    int chain_budget = 0;
    vh::Rng *rng = nullptr;
    JGen *gen = nullptr;
    std::string script;

    // instant reply (rpc mode): the response is fed from inside the send callback
    bool instant_armed = false;
    std::function<void(const MM &)> on_request_frame;

    void note(const std::string &s) {
        script += s; script += "; ";
        g_script += s; g_script += "; ";
        vh::st().case_desc = g_script.size() > 5000 ? "..." + g_script.substr(g_script.size() - 5000) : g_script;
    }

    void setup(Loop *loop, int k, uint16_t mg, int n) {
        kind = k; magic = mg; N = n;
        proto = make_proto(kind, magic);
        rpc.reset(new Rpc(loop));
        rpc->initialize(proto.get(), N);
        drv.reset(new Driver(*proto, kind));
        proto->setSendCallback([this](const void *d, size_t n2) { on_send(static_cast<const char *>(d), n2); });
        rpc->addService("echo", [this](int id, const Json &p, int &, Json &res) { svc("echo", id, p); res = p; return true; });
        rpc->addService("fail", [this](int id, const Json &p, int &ec, Json &) { svc("fail", id, p); ec = fail_code(p); return true; });
        rpc->addService("later", [this](int id, const Json &p, int &, Json &) {
            svc("later", id, p);
            if (id != 0) { AsyncJob j; j.id = id; j.params = p; jobs.push_back(j); }
            return false;
        });
        rpc->addService("relay", [this](int id, const Json &p, int &, Json &res) {
            svc("relay", id, p);
            if (chain_budget > 0) { --chain_budget; issue("echo", p, false, "relay-service"); }
            res = p; return true;
        });
    }
    static int fail_code(const Json &p) { return p.is_array() ? -7 - (int)p.size() : -5; }

    void teardown() {
        if (rpc) rpc->cleanup();
        rpc.reset();
        drv.reset();
        proto.reset();
    }

    void svc(const char *m, int id, const Json &p) {
        Entry e; e.t = Entry::SVC; e.method = m; e.id = id; e.js = p; log.push_back(e);
        vh::counter(std::string("service_") + m);
    }

    void on_send(const char *d, size_t n) {
        Frame f;
        f.bytes.assign(d, n);
        std::string text = f.bytes;
        if (kind == PK_HEADER) {
            if (n < 6 || f.bytes.substr(0, 6) != header_bytes(magic, (uint32_t)(n - 6))) { bad("rpc/sent-frame/header-wrong", vh::fmt("%s sent %s", name.c_str(), vh::hex(f.bytes.substr(0, 16)).c_str())); return; }
            text = f.bytes.substr(6);
        }
        Json j = Json::parse(text, nullptr, false);
        if (j.is_discarded()) { bad("rpc/sent-frame/not-json", vh::fmt("%s sent %s", name.c_str(), show(text, 200).c_str())); return; }
        f.msgs.push_back(parse_mm(j));
        const MM &m = f.msgs[0];
        if (m.kind == 'Q' && m.id_ok && m.id != 0 && issuing >= 0 && reqs[(size_t)issuing].id == 0) reqs[(size_t)issuing].id = m.id;
        outbox.push_back(f);
        Entry e; e.t = Entry::SENT; log.push_back(e);
        if (m.kind == 'Q' && on_request_frame) on_request_frame(m);
    }

    int issue(const std::string &method, const Json &params, bool chain, const char *why) {
        int q = (int)reqs.size();
        Req r; r.method = method; r.params = params; r.issued_at = g_now; r.chain = chain;
        reqs.push_back(r);
        Entry e; e.t = Entry::ISSUE; e.q = q; log.push_back(e);
        size_t ob = outbox.size();
        int prev = issuing;
        issuing = q;
        note(vh::fmt("%s.request#%d(%s,%s)[%s]@%llu", name.c_str(), q, show(method, 20).c_str(), show(params.dump(-1, ' ', false, Json::error_handler_t::replace), 60).c_str(), why,
                     (unsigned long long)g_now));
        rpc->request(method, params, [this, q](int errcode, const Json &res) { on_cb(q, errcode, res); });
        issuing = prev;
        vh::counter("requests_issued");
        if (g_stop) return q;
        if (outbox.size() <= ob || outbox[ob].msgs.empty() || outbox[ob].msgs[0].kind != 'Q') { bad("rpc/request/no-request-frame-sent", vh::fmt("%s request#%d", name.c_str(), q)); return q; }
        const MM &m = outbox[ob].msgs[0];
        if (!m.id_ok || m.id == 0) bad("rpc/request/frame-without-usable-id", vh::fmt("%s request#%d id=%s", name.c_str(), q, m.id_text.c_str()));
        else if (m.method != method || !same_json(m.payload, params))
            bad("rpc/request/frame-differs-from-call", vh::fmt("%s request#%d: sent method=%s params=%s", name.c_str(), q, show(m.method, 40).c_str(), show(m.payload.dump(), 120).c_str()));
        return q;
    }

    void notify(const std::string &method, const Json &params) {
        size_t ob = outbox.size();
        note(vh::fmt("%s.notify(%s)", name.c_str(), show(method, 20).c_str()));
        rpc->notify(method, params);
        vh::counter("notifications_sent");
        if (g_stop) return;
        if (outbox.size() != ob + 1 || outbox[ob].msgs[0].kind != 'Q' || outbox[ob].msgs[0].id != 0 || !outbox[ob].msgs[0].id_text.empty())
            bad("rpc/notify/frame-wrong", vh::fmt("%s notify(%s) sent %zu frames, first id=%s", name.c_str(), show(method, 20).c_str(), outbox.size() - ob,
                                                  outbox.size() > ob ? outbox[ob].msgs[0].id_text.c_str() : ""));
    }

    void on_cb(int q, int errcode, const Json &res) {
        Req &r = reqs[(size_t)q];
        ++r.cb_count;
        r.last_errcode = errcode;
        Entry e; e.t = Entry::CB; e.q = q; e.errcode = errcode; e.js = res; log.push_back(e);
        if (r.cb_count > 1) {
            bad("rpc/callback/invoked-more-than-once", vh::fmt("%s request#%d (id %d): callback number %d, errcode=%d", name.c_str(), q, r.id, r.cb_count, errcode));
            return;
        }
        if (r.chain && chain_budget > 0 && !g_stop) {
            --chain_budget;
            vh::counter("requests_issued_from_inside_a_callback");
            issue(rng->chance(1, 2) ? "echo" : "later", gen->payload(), rng->chance(1, 3), errcode == kTimeoutCode ? "from-timeout-callback" : "from-response-callback");
        }
    }

    //! model bookkeeping for log entries that need no expectation
    void absorb() {
        while (mark < log.size() && (log[mark].t == Entry::ISSUE || log[mark].t == Entry::SENT)) {
            if (log[mark].t == Entry::ISSUE) {
                int q = log[mark].q;
                int id = reqs[(size_t)q].id;
                if (id == 0) { if (!g_stop) bad("rpc/request/no-request-frame-sent", vh::fmt("%s request#%d", name.c_str(), q)); }
                else if (pending.count(id)) bad("rpc/request/id-reused-while-pending", vh::fmt("%s request#%d got id %d which request#%d still holds", name.c_str(), q, id, pending[id]));
                else pending[id] = q;
            }
            ++mark;
        }
    }

    //! the messages of completely delivered frames, in order: what must the log show?
    void expect_delivery(const std::vector<MM> &msgs, const char *how) {
        absorb();
        for (size_t mi = 0; mi < msgs.size(); ++mi) {
            const MM &m = msgs[mi];
            if (g_stop) return;
            if (m.kind == 'Q') {
                bool have = m.method == "echo" || m.method == "fail" || m.method == "later" || m.method == "relay";
                if (have) {
                    if (mark >= log.size() || log[mark].t != Entry::SVC || log[mark].method != m.method || log[mark].id != m.id || !same_json(log[mark].js, m.payload)) {
                        bad("rpc/incoming-request/service-not-invoked-once", vh::fmt("%s %s: request %s id=%d delivered, log shows %s", name.c_str(), how, m.method.c_str(), m.id,
                                                                                     mark < log.size() ? log[mark].text().c_str() : "<nothing>"));
                        return;
                    }
                    ++mark;
                }
                absorb();
            } else if (m.kind == 'R' || m.kind == 'E') {
                auto it = m.id_ok ? pending.find(m.id) : pending.end();
                if (it == pending.end()) {
                    vh::counter(m.id_ok ? "response_for_unknown_or_finished_id_fed" : "response_with_non_int_id_fed");
                    // must be ignored. A callback that shows up here for the request whose id is this id cut to 32 bits is attributed to this message.
                    if (m.id_wide && mark < log.size() && log[mark].t == Entry::CB && reqs[(size_t)log[mark].q].id == m.id_low && carries(log[mark], m)) {
                        // ... unless a later message of this delivery legitimately answers that request with the very same content
                        bool later_same = false;
                        for (size_t k = mi + 1; k < msgs.size(); ++k)
                            if ((msgs[k].kind == 'R' || msgs[k].kind == 'E') && msgs[k].id_ok && msgs[k].id == m.id_low) { later_same = carries(log[mark], msgs[k]); break; }
                        if (later_same) continue;
                        bad("rpc/response/out-of-int-range-id-completes-a-request",
                            vh::fmt("%s %s: response with id %s (never issued) was taken for request#%d (id %d): %s", name.c_str(), how, m.id_text.c_str(), log[mark].q, m.id_low, log[mark].text().c_str()));
                        return;
                    }
                    continue;           // any other callback shows up as an unexpected entry below
                }
                int q = it->second;
                Req &r = reqs[(size_t)q];
                int want_code = m.kind == 'R' ? 0 : m.errcode;
                if (mark >= log.size() || log[mark].t != Entry::CB || log[mark].q != q) {
                    bad("rpc/response/callback-not-invoked", vh::fmt("%s %s: response for pending request#%d (id %d, issued %llu ms ago, timeout %d s) delivered, log shows %s",
                                                                    name.c_str(), how, q, m.id, (unsigned long long)(g_now - r.issued_at), N,
                                                                    mark < log.size() ? log[mark].text().c_str() : "<nothing>"));
                    return;
                }
                if (log[mark].errcode != want_code || (m.kind == 'R' && !same_json(log[mark].js, m.payload))) {
                    bad("rpc/response/callback-got-different-response", vh::fmt("%s %s: request#%d (id %d): fed errcode=%d result=%s, %s", name.c_str(), how, q, m.id, want_code,
                                                                              show(m.payload.dump(), 100).c_str(), log[mark].text().c_str()));
                    return;
                }
                ++mark;
                pending.erase(it);
                r.model_done = true;
                vh::counter("completed_by_response");
                if (g_now - r.issued_at > (uint64_t)(N - 1) * 1000) vh::counter("response_accepted_within_last_second_before_deadline");
                absorb();
            } else {
                vh::counter("non_rpc_message_fed");
            }
        }
        absorb();
        if (mark < log.size() && !g_stop) {
            const Entry &e = log[mark];
            if (e.t == Entry::CB) {
                const Req &r = reqs[(size_t)e.q];
                bad(r.model_done ? "rpc/response/callback-for-finished-request" : "rpc/response/callback-without-matching-response",
                    vh::fmt("%s %s: %s but no delivered response has the integer id %d of that request (delivered ids: %s)", name.c_str(), how, e.text().c_str(), r.id, ids_text(msgs).c_str()));
            } else bad("rpc/incoming-request/service-invoked-without-request", vh::fmt("%s %s: %s", name.c_str(), how, e.text().c_str()));
        }
    }
    static bool carries(const Entry &cb, const MM &m) {
        return cb.errcode == (m.kind == 'R' ? 0 : m.errcode) && (m.kind != 'R' || same_json(cb.js, m.payload)) && (m.kind == 'R' || cb.js.is_null());
    }
    static std::string ids_text(const std::vector<MM> &msgs) {
        std::string o;
        for (const MM &m : msgs) o += (o.empty() ? "" : ",") + (m.id_text.empty() ? std::string("<none>") : m.id_text);
        return o;
    }

    //! after a loop pass under the advanced clock: only timeouts may have completed requests
    void expect_timeouts(const char *how) {
        absorb();
        while (mark < log.size() && !g_stop) {
            const Entry &e = log[mark];
            if (e.t == Entry::SVC) { bad("rpc/incoming-request/service-invoked-without-request", vh::fmt("%s %s: %s", name.c_str(), how, e.text().c_str())); return; }
            Req &r = reqs[(size_t)e.q];
            auto it = pending.find(r.id);
            if (it == pending.end() || it->second != e.q) {
                bad("rpc/timeout/callback-for-finished-request", vh::fmt("%s %s: %s, request already completed", name.c_str(), how, e.text().c_str()));
                return;
            }
            uint64_t el = g_now - r.issued_at;
            if (e.errcode != kTimeoutCode) {
                bad("rpc/timeout/callback-without-response-is-not-timeout-error", vh::fmt("%s %s: %s after %llu ms with no response delivered", name.c_str(), how, e.text().c_str(), (unsigned long long)el));
                return;
            }
            if (el <= (uint64_t)(N - 1) * 1000) {
                bad("rpc/timeout/fired-early", vh::fmt("%s %s: request#%d timed out %llu ms after request(), timeout_sec=%d", name.c_str(), how, e.q, (unsigned long long)el, N));
                return;
            }
            pending.erase(it);
            r.model_done = true;
            ++mark;
            vh::counter("completed_by_timeout");
            absorb();
        }
        if (g_stop) return;
        for (auto &kv : pending) {
            const Req &r = reqs[(size_t)kv.second];
            if (g_now - r.issued_at >= (uint64_t)N * 1000) {
                bad("rpc/timeout/not-fired-by-deadline", vh::fmt("%s %s: request#%d (id %d) still without callback %llu ms after request(), timeout_sec=%d", name.c_str(), how, kv.second,
                                                                  kv.first, (unsigned long long)(g_now - r.issued_at), N));
                return;
            }
        }
    }

    //! deliver up to `n` bytes of what is in flight; returns the messages of the frames completed by it
    std::vector<MM> deliver(size_t n, std::string *how) {
        std::vector<MM> done;
        size_t fed = 0;
        std::string chunk;
        while (n > 0 && !inq.empty()) {
            Frame &f = inq.front();
            size_t rest = f.bytes.size() - in_front_fed;
            size_t take = std::min(rest, n);
            if (kind == PK_PACKET) take = rest;       // packets are never split
            chunk.append(f.bytes, in_front_fed, take);
            in_front_fed += take; fed += take; n -= std::min(n, take);
            if (in_front_fed == f.bytes.size()) {
                if (kind == PK_PACKET) { feed_checked(chunk); chunk.clear(); }
                for (const MM &m : f.msgs) done.push_back(m);
                inq.pop_front(); in_front_fed = 0;
                vh::counter("frames_delivered");
            } else vh::counter("frame_delivered_in_pieces");
        }
        if (!chunk.empty()) feed_checked(chunk);
        *how = vh::fmt("deliver %zu bytes (%zu messages complete)", fed, done.size());
        return done;
    }
    void feed_checked(const std::string &chunk) {
        drv->feed(chunk);
        if (drv->closed && !g_stop) bad("rpc/peer-stream/error-on-valid-frames", vh::fmt("%s: onRecvData returned %zd while well-formed frames were delivered", name.c_str(), drv->err));
    }
    size_t in_flight_bytes() const {
        size_t n = 0;
        for (const Frame &f : inq) n += f.bytes.size();
        return n - in_front_fed;
    }
};

struct World {
    Loop *loop = nullptr;
    std::vector<Endpoint *> eps;
    void pump() {
        for (int i = 0; i < 2; ++i) { loop->runNext([] {}); loop->runLoop(Loop::Mode::kOnce); }
        vh::counter("loop_passes", 2);
    }
    //! advance the virtual clock in hops of at most 100 ms, one loop pass per hop, checking the deadlines each time
    void advance(uint64_t ms) {
        uint64_t target = g_now + ms;
        while (g_now < target && !g_stop) {
            uint64_t next = (g_now / 100 + 1) * 100;
            g_now = std::min(next, target);
            pump();
            for (Endpoint *e : eps) e->expect_timeouts("clock advance");
        }
        vh::counter("clock_advances");
    }
};

uint64_t pick_advance(vh::Rng &r, int N) {
    static const int v[] = {1, 7, 50, 100, 250, 499, 500, 501, 999, 1000, 1001, 1500, 2000};
    unsigned k = (unsigned)r.below(10);
    if (k < 6) return (uint64_t)r.pick(v);
    if (k == 6) return (uint64_t)N * 1000 - 1;
    if (k == 7) return (uint64_t)N * 1000;
    if (k == 8) return (uint64_t)(N - 1) * 1000 + (uint64_t)r.range(1, 999);
    return (uint64_t)r.range(1, 3000);
}

int pick_timeout(vh::Rng &r) { static const int v[] = {1, 1, 2, 2, 3, 5}; return r.pick(v); }

std::string frame_of(const Endpoint &e, const Json &j, vh::Rng &r) {
    std::string text = r.chance(1, 6) ? j.dump(1) : j.dump();
    return frame_text(e.kind, e.magic, text);
}

void finish_case(World &w, vh::Sig &sig, bool nontrivial) {
    // every deadline passes; then exactly one callback per request
    int maxN = 1;
    for (Endpoint *e : w.eps) maxN = std::max(maxN, e->N);
    if (!g_stop) w.advance((uint64_t)(maxN + 1) * 1000);
    for (Endpoint *e : w.eps) e->chain_budget = 0;          // follow-ups issued by the last timeouts get their own deadline
    if (!g_stop) w.advance((uint64_t)(maxN + 1) * 1000);
    for (Endpoint *e : w.eps) {
        if (g_stop) break;
        for (size_t q = 0; q < e->reqs.size(); ++q) {
            const Req &r = e->reqs[q];
            if (r.cb_count != 1) { bad(r.cb_count == 0 ? "rpc/callback/never-invoked" : "rpc/callback/invoked-more-than-once",
                                       vh::fmt("%s request#%zu (id %d): %d callbacks at the end of the history", e->name.c_str(), q, r.id, r.cb_count)); break; }
        }
        vh::counter("requests_checked_exactly_once", e->reqs.size());
    }
    for (Endpoint *e : w.eps) { sig.add(e->script); }
    vh::note_case(sig.h, nontrivial);
}

// ---------------------------------------------------------------------------------------------
// rpc mode: the harness is the peer
// ---------------------------------------------------------------------------------------------
Json weird_id(vh::Rng &r, int base_id, const char **what) {
    switch (r.below(12)) {
        case 0: *what = "id+2^32"; return Json((int64_t)base_id + 4294967296LL);
        case 1: *what = "id-2^32"; return Json((int64_t)base_id - 4294967296LL);
        case 2: *what = "id+2^33"; return Json((int64_t)base_id + 8589934592LL);
        case 3: *what = "id+2^63"; return Json((uint64_t)base_id + 9223372036854775808ULL);
        case 4: *what = "string-id"; return Json(std::to_string(base_id));
        case 5: *what = "fractional-id"; return Json((double)base_id + 0.5);
        case 6: *what = "null-id"; return Json();
        case 7: *what = "bool-id"; return Json(true);
        case 8: *what = "array-id"; { Json a = Json::array(); a.push_back(base_id); return a; }
        case 9: *what = "object-id"; { Json o = Json::object(); o["id"] = base_id; return o; }
        case 10: *what = "id+2^32*k"; return Json((int64_t)base_id + 4294967296LL * (int64_t)r.range(2, 1000));
        default: *what = "uint64-max-id"; return Json((uint64_t)UINT64_MAX);
    }
}

void rpc_case(uint64_t, vh::Rng &r) {
    g_stop = false; g_script.clear();
    g_now = 5000000 + (uint64_t)r.below(100000);
    std::unique_ptr<Loop> loop(Loop::New());
    World w; w.loop = loop.get();
    JGen gen(r);
    Endpoint ep;
    ep.name = "rpc"; ep.rng = &r; ep.gen = &gen; ep.chain_budget = (int)r.below(4);
    ep.setup(loop.get(), (int)r.below(3), (uint16_t)r.next(), pick_timeout(r));
    w.eps.push_back(&ep);
    vh::Sig sig;
    ep.note(vh::fmt("framing=%s timeout_sec=%d", pk_name(ep.kind), ep.N));
    vh::counter(std::string("rpc_over_") + pk_name(ep.kind));

    int next_unknown = 1000;
    bool saw_dup = false, saw_late = false, saw_unknown = false, saw_timeout = false, saw_rsp = false;
    // instant reply machinery: answer from inside the send callback
    struct Instant { bool armed = false; bool error = false; Json payload; int code = 0; std::vector<MM> fed; } inst;
    ep.on_request_frame = [&](const MM &m) {
        if (!inst.armed || !m.id_ok || m.id == 0) return;
        inst.armed = false;
        Json j = Json::object();
        j["jsonrpc"] = "2.0"; j["id"] = m.id;
        if (inst.error) { Json e = Json::object(); e["code"] = inst.code; j["error"] = e; } else j["result"] = inst.payload;
        MM mm = parse_mm(j);
        inst.fed.push_back(mm);
        ep.feed_checked(frame_of(ep, j, r));
        vh::counter("response_fed_from_inside_send_callback");
    };

    auto enqueue = [&](const Json &j, const char *why) {
        Frame f;
        f.bytes = frame_of(ep, j, r);
        if (j.is_array()) for (const Json &x : j) f.msgs.push_back(parse_mm(x));
        else f.msgs.push_back(parse_mm(j));
        ep.inq.push_back(f);
        ep.note(vh::fmt("peer queues %s %s", why, show(j.dump(-1, ' ', false, Json::error_handler_t::replace), 100).c_str()));
    };
    auto response_json = [&](const Json &id, bool error) {
        Json j = Json::object();
        j["jsonrpc"] = "2.0"; j["id"] = id;
        if (error) { Json e = Json::object(); static const int codes[] = {-32601, -32602, -32603, -32000, -1, 1, 0, 12345}; e["code"] = r.pick(codes); if (r.chance(1, 2)) e["message"] = gen.str(); j["error"] = e; }
        else j["result"] = gen.payload();
        return j;
    };
    auto some_req = [&](bool want_pending, int *q_out) {
        std::vector<int> c;
        for (size_t q = 0; q < ep.reqs.size(); ++q) if (ep.reqs[q].id != 0 && (ep.reqs[q].cb_count == 0) == want_pending) c.push_back((int)q);
        if (c.empty()) return false;
        *q_out = c[(size_t)r.below(c.size())];
        return true;
    };

    int steps = (int)r.range(8, 45);
    for (int s = 0; s < steps && !g_stop; ++s) {
        unsigned op = (unsigned)r.below(100);
        if (op < 22) {                                      // request
            static const char *ms[] = {"echo", "sum", "a.b", "later", ""};
            bool instant = r.chance(1, 6) && ep.in_front_fed == 0;     // not into the middle of a half-delivered frame
            if (instant) { inst.armed = true; inst.error = r.chance(1, 3); inst.payload = gen.payload(); inst.code = (int)r.range(-40000, 40000); inst.fed.clear(); }
            ep.issue(r.chance(1, 6) ? gen.str() : std::string(r.pick(ms)), r.chance(1, 5) ? Json() : gen.payload(), r.chance(1, 4), instant ? "instant-reply" : "plain");
            if (instant && !g_stop) { inst.armed = false; ep.expect_delivery(inst.fed, "response fed inside request()"); saw_rsp = true; }
            else ep.absorb();
        } else if (op < 26) {
            ep.notify(r.chance(1, 2) ? "note" : gen.str(), gen.payload());
            ep.absorb();
        } else if (op < 44) {                               // matching response for a pending request
            int q;
            if (!some_req(true, &q)) continue;
            enqueue(response_json(ep.reqs[(size_t)q].id, r.chance(1, 3)), "response");
            saw_rsp = true;
        } else if (op < 52) {                               // duplicate / late response
            int q;
            if (!some_req(false, &q)) continue;
            enqueue(response_json(ep.reqs[(size_t)q].id, r.chance(1, 3)), ep.reqs[(size_t)q].last_errcode == kTimeoutCode ? "late-response" : "duplicate-response");
            if (ep.reqs[(size_t)q].last_errcode == kTimeoutCode) { saw_late = true; vh::counter("late_response_after_timeout_queued"); }
            else { saw_dup = true; vh::counter("duplicate_response_queued"); }
        } else if (op < 58) {                               // unknown id: never issued, or not yet issued
            int last = 0;
            for (const Req &q : ep.reqs) last = std::max(last, q.id);
            static const int far[] = {0, -1, INT_MAX, INT_MIN, 65536};
            int id = r.chance(1, 2) ? last + (int)r.range(1, 3) : (r.chance(1, 2) ? r.pick(far) : next_unknown++);
            bool clash = false;
            for (const Req &q : ep.reqs) if (q.id == id) clash = true;
            if (clash) continue;
            enqueue(response_json(id, r.chance(1, 3)), "unknown-id-response");
            saw_unknown = true; vh::counter("unknown_id_response_queued");
        } else if (op < 64) {                               // ids that are not the int the Rpc issued
            int q;
            int base = some_req(true, &q) ? ep.reqs[(size_t)q].id : 1;
            const char *what = "";
            Json id = weird_id(r, base, &what);
            enqueue(response_json(id, r.chance(1, 3)), what);
            vh::counter("wrong_type_or_out_of_range_id_response_queued");
            if (id.is_number_integer()) vh::counter("out_of_int_range_id_response_queued");
        } else if (op < 68) {                               // batch of responses
            Json arr = Json::array();
            int n = (int)r.range(1, 4);
            std::set<int> used;
            for (int i = 0; i < n; ++i) {
                int q;
                if (r.chance(2, 3) && some_req(true, &q) && !used.count(q)) { used.insert(q); arr.push_back(response_json(ep.reqs[(size_t)q].id, r.chance(1, 3))); }
                else if (some_req(false, &q)) arr.push_back(response_json(ep.reqs[(size_t)q].id, false));
                else arr.push_back(response_json(next_unknown++, false));
            }
            enqueue(arr, "batch");
            vh::counter("batch_of_responses_queued");
        } else if (op < 72) {                               // the peer calls us: ids collide with our own pending ids
            int q;
            int id = some_req(true, &q) ? ep.reqs[(size_t)q].id : (int)r.range(1, 9);
            if (r.chance(1, 4)) id = 0;
            static const char *ms[] = {"echo", "fail", "later", "relay", "nope"};
            Json j = Json::object();
            j["jsonrpc"] = "2.0"; j["method"] = r.pick(ms); if (id) j["id"] = id; j["params"] = gen.payload();
            enqueue(j, "incoming-request");
            vh::counter("incoming_request_with_colliding_id_queued");
        } else if (op < 74) {                               // valid JSON that is no JSON-RPC message
            static const char *t[] = {"{}", "[]", "{\"jsonrpc\":\"2.0\"}", "{\"jsonrpc\":\"1.0\",\"id\":1,\"result\":1}", "[1,2]", "{\"id\":1,\"result\":2}"};
            enqueue(Json::parse(r.pick(t)), "non-rpc");
        } else if (op < 88) {                               // deliver some of what is in flight
            size_t fl = ep.in_flight_bytes();
            if (!fl) continue;
            size_t n;
            unsigned k = (unsigned)r.below(5);
            if (k == 0) n = fl;
            else if (k == 1) n = ep.inq.front().bytes.size() - ep.in_front_fed;
            else if (k == 2) n = (size_t)r.range(1, 9);
            else n = (size_t)r.range(1, (int64_t)fl);
            std::string how;
            std::vector<MM> done = ep.deliver(n, &how);
            ep.note(how);
            if (!g_stop) ep.expect_delivery(done, how.c_str());
        } else {                                            // time passes
            uint64_t d = pick_advance(r, ep.N);
            ep.note(vh::fmt("advance %llu ms", (unsigned long long)d));
            size_t before = 0; for (const Req &q : ep.reqs) before += q.cb_count;
            w.advance(d);
            size_t after = 0; for (const Req &q : ep.reqs) after += q.cb_count;
            if (after > before) saw_timeout = true;
        }
        // answers the Rpc owes for incoming requests answered later
        if (!g_stop && !ep.jobs.empty() && r.chance(1, 4)) {
            AsyncJob &j = ep.jobs[(size_t)r.below(ep.jobs.size())];
            ep.note(vh::fmt("rpc.respond(%d)", j.id));
            if (r.chance(1, 2)) ep.rpc->respond(j.id, j.params); else ep.rpc->respond(j.id, -9);
            ++j.answered;
            ep.absorb();
            vh::counter("async_respond_calls");
        }
    }
    // flush what is still in flight (in two steps), then let every deadline pass
    for (int i = 0; i < 2 && !g_stop && ep.in_flight_bytes(); ++i) {
        std::string how;
        std::vector<MM> done = ep.deliver(i == 0 ? std::max<size_t>(1, ep.in_flight_bytes() / 2) : ep.in_flight_bytes(), &how);
        ep.note(how);
        if (!g_stop) ep.expect_delivery(done, how.c_str());
    }
    finish_case(w, sig, (saw_rsp && saw_timeout) || saw_dup || saw_late || saw_unknown);
    if (vh::want_sample(2) && !g_stop && ep.reqs.size() >= 2 && saw_timeout && saw_rsp && g_script.size() < 2500) {
        std::string outcome = "[";
        for (size_t q = 0; q < ep.reqs.size(); ++q)
            outcome += vh::fmt("%s{\"request\":%zu,\"id\":%d,\"callbacks\":%d,\"errcode\":%d}", q ? "," : "", q, ep.reqs[q].id, ep.reqs[q].cb_count, ep.reqs[q].last_errcode);
        outcome += "]";
        vh::sample(vh::fmt("{\"mode\":\"rpc\",\"history\":%s,\"outcome\":%s}", vh::jstr(g_script).c_str(), outcome.c_str()), 2);
    }
    ep.on_request_frame = nullptr;
    ep.teardown();
    loop->cleanup();
}

// ---------------------------------------------------------------------------------------------
// pair mode: Rpc <-> Rpc
// ---------------------------------------------------------------------------------------------
void pair_case(uint64_t, vh::Rng &r) {
    g_stop = false; g_script.clear();
    g_now = 7000000 + (uint64_t)r.below(100000);
    std::unique_ptr<Loop> loop(Loop::New());
    World w; w.loop = loop.get();
    JGen gen(r);
    Endpoint a, b;
    int kind = (int)r.below(3);
    uint16_t magic = (uint16_t)r.next();
    a.name = "A"; b.name = "B";
    a.rng = b.rng = &r; a.gen = b.gen = &gen;
    a.chain_budget = (int)r.below(3); b.chain_budget = (int)r.below(3);
    a.setup(loop.get(), kind, magic, pick_timeout(r));
    b.setup(loop.get(), kind, magic, pick_timeout(r));
    w.eps.push_back(&a); w.eps.push_back(&b);
    Endpoint *E[2] = {&a, &b};
    vh::Sig sig;
    a.note(vh::fmt("framing=%s A.timeout=%d B.timeout=%d", pk_name(kind), a.N, b.N));
    vh::counter(std::string("pair_over_") + pk_name(kind));
    bool saw_rsp = false, saw_timeout = false, saw_lost = false, saw_late = false;

    // frames an endpoint handed to its send callback travel to the other side (or get lost)
    auto forward = [&]() {
        for (int i = 0; i < 2; ++i) {
            Endpoint *from = E[i], *to = E[1 - i];
            while (from->out_taken < from->outbox.size()) {
                const Frame &f = from->outbox[from->out_taken++];
                if (r.chance(1, 14)) { saw_lost = true; vh::counter("frames_lost_in_transit"); from->note(vh::fmt("%s->%s frame lost", from->name.c_str(), to->name.c_str())); continue; }
                to->inq.push_back(f);
            }
        }
    };
    // frames produced while an endpoint handled a delivery: what the responder put on the wire for each request
    auto check_responder = [&](Endpoint *x, const std::vector<MM> &msgs, size_t out_before) {
        size_t k = out_before;
        for (const MM &m : msgs) {
            if (g_stop) return;
            if (m.kind != 'Q' || m.id == 0) continue;
            bool sync = m.method == "echo" || m.method == "fail" || m.method == "relay";
            bool known = sync || m.method == "later";
            if (known && !sync) continue;
            // find the response frame with this id among the new frames
            const MM *rsp = nullptr;
            for (size_t i = k; i < x->outbox.size(); ++i) {
                const MM &o = x->outbox[i].msgs[0];
                if ((o.kind == 'R' || o.kind == 'E') && o.id_ok && o.id == m.id) { rsp = &o; k = i + 1; break; }
            }
            if (!rsp) { bad("pair/responder/no-response-frame", vh::fmt("%s: request %s id=%d handled, no response frame sent", x->name.c_str(), m.method.c_str(), m.id)); return; }
            bool ok;
            if (!known) ok = rsp->kind == 'E' && rsp->errcode == kNoMethodCode;
            else if (m.method == "fail") ok = rsp->kind == 'E' && rsp->errcode == Endpoint::fail_code(m.payload);
            else ok = rsp->kind == 'R' && same_json(rsp->payload, m.payload);
            if (!ok) bad("pair/responder/response-frame-differs-from-service-answer",
                         vh::fmt("%s: request %s id=%d params=%s answered with kind=%c errcode=%d payload=%s", x->name.c_str(), m.method.c_str(), m.id, show(m.payload.dump(), 80).c_str(),
                                 rsp->kind, rsp->errcode, show(rsp->payload.dump(), 80).c_str()));
            else vh::counter("responder_frames_checked");
        }
    };

    int steps = (int)r.range(10, 50);
    for (int s = 0; s < steps && !g_stop; ++s) {
        Endpoint *x = E[r.below(2)];
        unsigned op = (unsigned)r.below(100);
        if (op < 25) {
            static const char *ms[] = {"echo", "echo", "fail", "later", "later", "relay", "nope"};
            x->issue(r.pick(ms), r.chance(1, 6) ? Json() : gen.payload(), r.chance(1, 4), "plain");
            x->absorb();
        } else if (op < 29) {
            static const char *ms[] = {"echo", "later", "nope", "fail"};
            x->notify(r.pick(ms), gen.payload());
            x->absorb();
        } else if (op < 70) {                               // deliver
            size_t fl = x->in_flight_bytes();
            if (!fl) continue;
            size_t n;
            unsigned k = (unsigned)r.below(5);
            if (k == 0) n = fl;
            else if (k == 1) n = x->inq.front().bytes.size() - x->in_front_fed;
            else if (k == 2) n = (size_t)r.range(1, 9);
            else n = (size_t)r.range(1, (int64_t)fl);
            size_t ob = x->outbox.size();
            std::string how;
            std::vector<MM> done = x->deliver(n, &how);
            x->note(x->name + " " + how);
            for (const MM &m : done) if (m.kind == 'R' || m.kind == 'E') {
                auto it = m.id_ok ? x->pending.find(m.id) : x->pending.end();
                if (it != x->pending.end()) saw_rsp = true;
                else { saw_late = true; vh::counter("late_or_duplicate_response_delivered"); }
            }
            if (!g_stop) x->expect_delivery(done, how.c_str());
            if (!g_stop) check_responder(x, done, ob);
        } else if (op < 86) {                               // answer an asynchronous request (maybe for the second time)
            if (x->jobs.empty()) continue;
            AsyncJob &j = x->jobs[(size_t)r.below(x->jobs.size())];
            if (j.answered >= 2) continue;
            x->note(vh::fmt("%s.respond(%d)%s", x->name.c_str(), j.id, j.answered ? " again" : ""));
            unsigned k = (unsigned)r.below(3);
            if (k == 0) x->rpc->respond(j.id, j.params);
            else if (k == 1) x->rpc->respond(j.id, -9);
            else x->rpc->respond(j.id, 0, j.params);
            if (j.answered) vh::counter("async_answered_twice");
            ++j.answered;
            x->absorb();
            vh::counter("async_respond_calls");
        } else {
            uint64_t d = pick_advance(r, x->N);
            a.note(vh::fmt("advance %llu ms", (unsigned long long)d));
            size_t before = 0; for (Endpoint *e : E) for (const Req &q : e->reqs) before += q.cb_count;
            w.advance(d);
            size_t after = 0; for (Endpoint *e : E) for (const Req &q : e->reqs) after += q.cb_count;
            if (after > before) saw_timeout = true;
        }
        forward();
    }
    // drain both directions completely (responses produce no further traffic; requests may)
    for (int round = 0; round < 6 && !g_stop; ++round) {
        for (int i = 0; i < 2 && !g_stop; ++i) {
            Endpoint *x = E[i];
            if (!x->in_flight_bytes()) continue;
            size_t ob = x->outbox.size();
            std::string how;
            std::vector<MM> done = x->deliver(x->in_flight_bytes(), &how);
            x->note(x->name + " " + how);
            if (!g_stop) x->expect_delivery(done, how.c_str());
            if (!g_stop) check_responder(x, done, ob);
            forward();
        }
    }
    finish_case(w, sig, saw_rsp && (saw_timeout || saw_late || saw_lost));
    if (vh::want_sample(1) && !g_stop && saw_rsp && saw_timeout && g_script.size() < 3000) {
        std::string outcome = "[";
        bool first = true;
        for (Endpoint *e : E) for (size_t q = 0; q < e->reqs.size(); ++q) {
            outcome += vh::fmt("%s{\"side\":\"%s\",\"request\":%zu,\"id\":%d,\"callbacks\":%d,\"errcode\":%d}", first ? "" : ",", e->name.c_str(), q, e->reqs[q].id, e->reqs[q].cb_count, e->reqs[q].last_errcode);
            first = false;
        }
        outcome += "]";
        vh::sample(vh::fmt("{\"mode\":\"pair\",\"history\":%s,\"outcome\":%s}", vh::jstr(g_script).c_str(), outcome.c_str()), 1);
    }
    a.teardown(); b.teardown();
    loop->cleanup();
}

}  // namespace

int main(int argc, char **argv) {
    vh::parse_args(argc, argv);
    tbox::event::verif::SetSteadyClockMs(clock_fn);
    const std::string mode = vh::st().args.mode;
    return vh::run(argc, argv, [&](uint64_t idx, vh::Rng &r) {
        if (mode == "pair") pair_case(idx, r);
        else rpc_case(idx, r);
    });
}
