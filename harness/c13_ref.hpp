// C13 reference model: an independent line editor, command-line tokenizer, line classifier and
// history-reference resolver. Nothing in here calls into cpp-tbox.
//
// What the model pins (and only this is ever turned into a verdict):
//  * the edit line after every keystroke (insert at cursor, backspace, delete, left/right/home/end,
//    history up/down: Up recalls the next older stored line, Down the next newer one, Down past the newest
//    gives an empty line; a recalled line replaces the edit line and puts the cursor at its end);
//  * which probe invocations a line MUST produce (segments naming a probe by its canonical absolute path that
//    come before anything irregular in the line) and which it MAY produce (everything else that tokenizes);
//  * history storage for plain successful lines (stored) and for the sole command `history` (not stored);
//    everything else is left open and learnt from the shell's own `history` listing;
//  * `!n`, `!-n`, `!!` with an integer argument: the addressed entry, or "must report an error".
#ifndef VERIF_C13_REF_HPP
#define VERIF_C13_REF_HPP

#include <string>
#include <vector>
#include <set>
#include <cstdint>
#include <cstdlib>

namespace c13 {

typedef std::vector<std::string> Args;

const size_t kHistoryMax = 20;

//! ---------------------------------------------------------------- reference editor
struct RefEditor {
    std::string line;
    size_t cur = 0;
    std::vector<std::string> hist;     //!< oldest first; kept in sync with the shell (see harness)
    size_t hidx = 0;                   //!< 0 = not browsing; k = showing the k-th newest entry

    void ch(char c) { line.insert(line.begin() + cur, c); ++cur; }
    bool backspace() { if (cur == 0) return false; line.erase(line.begin() + (cur - 1)); --cur; return true; }
    bool del() { if (cur >= line.size()) return false; line.erase(line.begin() + cur); return true; }
    bool left() { if (cur == 0) return false; --cur; return true; }
    bool right() { if (cur >= line.size()) return false; ++cur; return true; }
    void home() { cur = 0; }
    void end() { cur = line.size(); }
    bool up() {
        if (hidx >= hist.size()) return false;
        ++hidx;
        line = hist[hist.size() - hidx];
        cur = line.size();
        return true;
    }
    bool down() {
        if (hidx == 0) return false;
        --hidx;
        if (hidx > 0) line = hist[hist.size() - hidx]; else line.clear();
        cur = line.size();
        return true;
    }
    //! returns the line that is executed and resets the edit state
    std::string enter() { std::string l = line; line.clear(); cur = 0; hidx = 0; return l; }
    void reset_session() { line.clear(); cur = 0; hidx = 0; hist.clear(); }
};

inline std::vector<std::string> capped_push(std::vector<std::string> h, const std::string &l) {
    h.push_back(l);
    while (h.size() > kHistoryMax) h.erase(h.begin());
    return h;
}

//! ---------------------------------------------------------------- tokenizer (character state machine)
//! Behaviour pinned by the repository's own unit tests for SplitCmdline: blanks separate tokens; a token that
//! starts with a quote is the text up to the matching quote (quotes dropped); a token that starts with anything
//! else runs to the next blank that is outside quotes and keeps its quotes; an unterminated quote is a failure.
//! `pinned` is cleared for the one shape those tests do not fix (closing quote directly followed by a non-blank).
inline bool is_blank(char c) { return c == ' ' || c == '\t'; }

inline bool RefTokenize(const std::string &s, Args &out, bool &pinned) {
    out.clear();
    pinned = true;
    size_t i = 0, n = s.size();
    for (;;) {
        while (i < n && is_blank(s[i])) ++i;
        if (i >= n) break;
        char c = s[i];
        if (c == '\'' || c == '"') {
            size_t j = i + 1;
            while (j < n && s[j] != c) ++j;
            if (j >= n) return false;
            out.push_back(s.substr(i + 1, j - i - 1));
            i = j + 1;
            if (i < n && !is_blank(s[i])) pinned = false;
        } else {
            size_t start = i;
            while (i < n && !is_blank(s[i])) {
                if (s[i] == '\'' || s[i] == '"') {
                    char q = s[i];
                    size_t j = i + 1;
                    while (j < n && s[j] != q) ++j;
                    if (j >= n) return false;
                    i = j + 1;
                } else {
                    ++i;
                }
            }
            out.push_back(s.substr(start, i - start));
        }
    }
    return true;
}

inline std::vector<std::string> SplitSemi(const std::string &l) {
    std::vector<std::string> v;
    std::string cur;
    for (char c : l) {
        if (c == ';') { v.push_back(cur); cur.clear(); } else cur += c;
    }
    v.push_back(cur);
    return v;
}

//! ---------------------------------------------------------------- line classification
enum SegKind { SEG_EMPTY, SEG_PARSE_FAIL, SEG_HISTORY, SEG_BANG, SEG_EXIT, SEG_BUILTIN, SEG_PROBE, SEG_OTHER };

struct Seg {
    SegKind kind;
    Args args;
    bool pinned_tokens;
};

struct Item {           //!< one potential probe invocation
    Args args;
    bool must;
};

struct LineInfo {
    std::vector<Seg> segs;
    bool plain_success = false;   //!< every segment tokenizes (pinned shape) and is a probe call or ls/pwd/cd/help/tree
    bool sole_history = false;    //!< the whole line is the `history` command
    bool sole_bang = false;       //!< the whole line is one history reference token
    bool has_bang = false;
    bool exit_must = false;       //!< an exit/quit segment precedes anything irregular
    bool exit_may = false;        //!< an exit/quit segment occurs somewhere
    bool tokens_unpinned = false;
    std::vector<Item> items;      //!< probe invocations, in order (meaningless when has_bang && !sole_bang)
};

inline bool is_builtin(const std::string &c) {
    return c == "ls" || c == "pwd" || c == "cd" || c == "help" || c == "tree";
}

//! `probes`: canonical absolute paths of the probe function nodes of the harness's node tree
inline LineInfo Classify(const std::string &line, const std::set<std::string> &probes) {
    LineInfo li;
    std::vector<std::string> parts = SplitSemi(line);
    bool irregular = false;
    bool all_plain = true;
    for (size_t k = 0; k < parts.size(); ++k) {
        Seg sg;
        sg.pinned_tokens = true;
        if (parts[k].empty()) {
            sg.kind = SEG_EMPTY;
        } else if (!RefTokenize(parts[k], sg.args, sg.pinned_tokens) || sg.args.empty()) {
            sg.kind = SEG_PARSE_FAIL;
            sg.args.clear();
        } else {
            const std::string &c = sg.args[0];
            if (c == "history") sg.kind = SEG_HISTORY;
            else if (!c.empty() && c[0] == '!') sg.kind = SEG_BANG;
            else if (c == "exit" || c == "quit") sg.kind = SEG_EXIT;
            else if (is_builtin(c)) sg.kind = SEG_BUILTIN;
            else if (probes.count(c)) sg.kind = SEG_PROBE;
            else sg.kind = SEG_OTHER;
        }
        if (!sg.pinned_tokens) li.tokens_unpinned = true;
        switch (sg.kind) {
            case SEG_EMPTY: case SEG_PARSE_FAIL: case SEG_HISTORY:
                irregular = true; all_plain = false; break;
            case SEG_BANG:
                li.has_bang = true; irregular = true; all_plain = false; break;
            case SEG_EXIT:
                li.exit_may = true;
                if (!irregular) li.exit_must = true;
                irregular = true; all_plain = false; break;
            case SEG_BUILTIN:
                break;
            case SEG_PROBE: {
                Item it; it.args = sg.args; it.must = !irregular && sg.pinned_tokens;
                li.items.push_back(it);
                break;
            }
            case SEG_OTHER: {
                Item it; it.args = sg.args; it.must = false;
                li.items.push_back(it);
                all_plain = false;
                break;
            }
        }
        if (!sg.pinned_tokens) all_plain = false;
        li.segs.push_back(sg);
    }
    li.plain_success = all_plain;
    if (li.segs.size() == 1) {
        if (li.segs[0].kind == SEG_HISTORY) li.sole_history = true;
        if (li.segs[0].kind == SEG_BANG && li.segs[0].args.size() == 1 && li.segs[0].pinned_tokens) li.sole_bang = true;
    }
    return li;
}

//! ---------------------------------------------------------------- history references
enum RefClass { REF_ENTRY, REF_ERROR, REF_OPEN };

struct RefResult {
    RefClass cls;
    size_t index;         //!< valid for REF_ENTRY: index into the history listing (0 = oldest)
    const char *why;
    const char *tag;      //!< short class name for counters
};

//! compare a string of decimal digits with a size_t without overflow: -1 / 0 / +1
inline int cmp_digits(const std::string &digits, size_t v) {
    size_t i = 0;
    while (i + 1 < digits.size() && digits[i] == '0') ++i;
    std::string d = digits.substr(i);
    std::string w = std::to_string(v);
    if (d.size() != w.size()) return d.size() < w.size() ? -1 : 1;
    return d < w ? -1 : (d > w ? 1 : 0);
}

//! token: the whole first argument, starting with '!'
inline RefResult ResolveRef(const std::string &token, size_t hist_size) {
    RefResult r; r.index = 0; r.tag = "open";
    std::string sub = token.substr(1);
    if (sub == "!") {
        if (hist_size == 0) { r.cls = REF_ERROR; r.why = "!! with empty history"; r.tag = "bangbang_empty_history"; }
        else { r.cls = REF_ENTRY; r.index = hist_size - 1; r.why = "!!"; r.tag = "bangbang"; }
        return r;
    }
    if (sub.empty()) { r.cls = REF_ERROR; r.why = "empty argument"; r.tag = "empty_argument"; return r; }
    size_t p = 0;
    bool neg = false, sign = false;
    if (sub[0] == '-' || sub[0] == '+') { neg = sub[0] == '-'; sign = true; p = 1; }
    if (sub[0] == ' ' || sub[0] == '\t') { r.cls = REF_OPEN; r.why = "leading blank"; return r; }
    if (p >= sub.size() || sub[p] < '0' || sub[p] > '9') { r.cls = REF_ERROR; r.why = "non-numeric argument"; r.tag = "non_numeric"; return r; }
    size_t q = p;
    while (q < sub.size() && sub[q] >= '0' && sub[q] <= '9') ++q;
    if (q != sub.size()) { r.cls = REF_OPEN; r.why = "digits followed by other characters"; return r; }
    if (sign && !neg) { r.cls = REF_OPEN; r.why = "explicit plus sign"; return r; }
    std::string digits = sub.substr(p);
    if (digits.size() > 1 && digits[0] == '0') { r.cls = REF_OPEN; r.why = "leading zeros"; return r; }
    if (!neg) {
        if (cmp_digits(digits, hist_size) < 0) {
            r.cls = REF_ENTRY; r.index = (size_t)strtoull(digits.c_str(), nullptr, 10); r.why = "!n in range"; r.tag = "absolute";
        } else { r.cls = REF_ERROR; r.why = "!n out of range"; r.tag = "absolute_out_of_range"; }
        return r;
    }
    if (cmp_digits(digits, 0) == 0) { r.cls = REF_OPEN; r.why = "minus zero"; return r; }
    if (cmp_digits(digits, hist_size) <= 0) {
        r.cls = REF_ENTRY; r.index = hist_size - (size_t)strtoull(digits.c_str(), nullptr, 10); r.why = "!-n in range"; r.tag = "negative";
    } else { r.cls = REF_ERROR; r.why = "!-n out of range"; r.tag = "negative_out_of_range"; }
    return r;
}

//! ---------------------------------------------------------------- matching observed probe calls to items
//! true iff `actual` is a subsequence of `items` (equal argument vectors, same order) that uses every `must` item
inline bool MatchCalls(const std::vector<Item> &items, const std::vector<Args> &actual) {
    size_t I = items.size(), A = actual.size();
    std::vector<std::vector<char>> dp(A + 1, std::vector<char>(I + 1, 0));
    dp[0][0] = 1;
    for (size_t a = 0; a <= A; ++a) {
        for (size_t i = 1; i <= I; ++i) {
            char v = 0;
            if (!items[i - 1].must && dp[a][i - 1]) v = 1;
            if (!v && a > 0 && dp[a - 1][i - 1] && items[i - 1].args == actual[a - 1]) v = 1;
            dp[a][i] = v;
        }
    }
    return dp[A][I] != 0;
}

inline std::string show_args(const Args &a) {
    std::string s = "[";
    for (size_t i = 0; i < a.size(); ++i) { if (i) s += ","; s += "'" + a[i] + "'"; }
    return s + "]";
}

}  // namespace c13

#endif
