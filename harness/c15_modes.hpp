// C15 modes (included by c15_dns.cpp; everything lives in that translation unit)
namespace {

//--------------------------------------------------------------------------------------------------------------
// stack pre-fill: what an unchecked read leaves in a local is whatever was on the stack before; making that a chosen
// pattern turns "depends on uninitialised memory" into a reproducible difference between two runs
__attribute__((noinline)) void prefill_stack(uint8_t lo, uint8_t hi) {
    volatile uint8_t buf[40000];
    for (size_t i = 0; i < sizeof buf; ++i) buf[i] = (reinterpret_cast<uintptr_t>(&buf[i]) & 1) ? hi : lo;
    __asm__ __volatile__("" ::: "memory");
}
const uint8_t kPatterns[][2] = {{0, 0}, {1, 0}, {5, 0}, {0x80, 0x81}, {0xff, 0xff}};

//--------------------------------------------------------------------------------------------------------------
// isolated child for datagrams whose compression pointers form cycles or long chains
struct ChildOut { bool ok = false; bool timeout = false; int sig = 0; int code = 0; std::string err; std::vector<Ev> evs; };

void wr_all(int fd, const void *p, size_t n) {
    const char *c = static_cast<const char *>(p);
    while (n) { ssize_t k = write(fd, c, n); if (k <= 0) { if (errno == EINTR) continue; return; } c += k; n -= size_t(k); }
}
void ser_u32(std::string &s, uint32_t v) { s.append(reinterpret_cast<const char *>(&v), 4); }

//! in the child a fault on the stack (or its guard) is reported in one line instead of a symbolised sanitizer report
uintptr_t g_stack_lo = 0, g_stack_hi = 0;
void child_segv(int, siginfo_t *si, void *) {
    uintptr_t a = reinterpret_cast<uintptr_t>(si->si_addr);
    bool on_stack = a + (1u << 20) >= g_stack_lo && a < g_stack_hi;
    const char *m = on_stack ? "C15-CHILD stack-overflow (fault address on the stack guard)\n" : "C15-CHILD segv-elsewhere\n";
    if (write(2, m, strlen(m)) < 0) {}
    _exit(on_stack ? 77 : 78);
}
void child_install_segv() {
    pthread_attr_t at;
    if (g_stack_hi == 0 && pthread_getattr_np(pthread_self(), &at) == 0) {   // reads /proc/self/maps: once, in the parent
        void *sa = nullptr; size_t sz = 0;
        pthread_attr_getstack(&at, &sa, &sz);
        g_stack_lo = reinterpret_cast<uintptr_t>(sa); g_stack_hi = g_stack_lo + sz;
        pthread_attr_destroy(&at);
    }
    static char alt[1 << 16];
    stack_t ss;
    ss.ss_sp = alt; ss.ss_flags = 0; ss.ss_size = sizeof alt;
    sigaltstack(&ss, nullptr);
    struct sigaction sa;
    memset(&sa, 0, sizeof sa);
    sa.sa_sigaction = child_segv;
    sa.sa_flags = SA_SIGINFO | SA_ONSTACK;
    sigaction(SIGSEGV, &sa, nullptr);
    sigaction(SIGBUS, &sa, nullptr);
}

ChildOut run_in_child(Ctx &c, const Bytes &dg, int srv, uint8_t lo, uint8_t hi) {
    ChildOut o;
    int po[2], pe[2];
    if (pipe(po) != 0 || pipe(pe) != 0) { fprintf(stderr, "VH-FATAL: pipe-failed\n"); abort(); }
    fflush(stdout);
    fflush(stderr);
    if (g_stack_hi == 0) {
        pthread_attr_t at;
        if (pthread_getattr_np(pthread_self(), &at) == 0) {
            void *sa = nullptr; size_t sz = 0;
            pthread_attr_getstack(&at, &sa, &sz);
            g_stack_lo = reinterpret_cast<uintptr_t>(sa); g_stack_hi = g_stack_lo + sz;
            pthread_attr_destroy(&at);
        }
    }
    pid_t pid = fork();
    if (pid < 0) { fprintf(stderr, "VH-FATAL: fork-failed\n"); abort(); }
    if (pid == 0) {
        close(po[0]); close(pe[0]);
        dup2(pe[1], 2);
        child_install_segv();
        c.in_child = true;
        std::unique_ptr<uint8_t[]> buf(new uint8_t[dg.size()]);
        if (!dg.empty()) memcpy(buf.get(), dg.data(), dg.size());
        SockAddr from(IPAddress::FromString(vh::fmt("127.0.0.%d", srv + 1)), 53);
        c.evs.clear();
        c.step = S_DGRAM;
        prefill_stack(lo, hi);
        c.dns->onUdpRecv(buf.get(), dg.size(), from);
        std::string s;
        ser_u32(s, uint32_t(c.evs.size()));
        for (auto &e : c.evs) {
            ser_u32(s, uint32_t(e.uid)); ser_u32(s, uint32_t(e.status));
            ser_u32(s, uint32_t(e.a.size()));
            for (auto &a : e.a) { ser_u32(s, a.ttl); s.append(reinterpret_cast<const char *>(a.ip), 4); }
            ser_u32(s, uint32_t(e.c.size()));
            for (auto &x : e.c) { ser_u32(s, x.ttl); ser_u32(s, uint32_t(x.name.size())); s += x.name; }
        }
        ser_u32(s, 0x454e4421u);
        wr_all(po[1], s.data(), s.size());
        _exit(0);
    }
    close(po[1]); close(pe[1]);
    std::string out;
    struct pollfd pf[2] = {{po[0], POLLIN, 0}, {pe[0], POLLIN, 0}};
    int open_fds = 2;
    time_t t0 = time(nullptr);
    char tmp[65536];
    while (open_fds > 0) {
        int pr = poll(pf, 2, 1000);
        if (pr < 0 && errno != EINTR) break;
        if (time(nullptr) - t0 > 120) { o.timeout = true; kill(pid, SIGKILL); break; }
        for (int i = 0; i < 2; ++i) {
            if (pf[i].fd < 0 || !(pf[i].revents & (POLLIN | POLLHUP | POLLERR))) continue;
            ssize_t k = read(pf[i].fd, tmp, sizeof tmp);
            if (k > 0) { if (i == 0) out.append(tmp, size_t(k)); else if (o.err.size() < 200000) o.err.append(tmp, size_t(k)); }
            else if (k == 0 || (k < 0 && errno != EINTR)) { close(pf[i].fd); pf[i].fd = -1; --open_fds; }
        }
    }
    for (int i = 0; i < 2; ++i) if (pf[i].fd >= 0) close(pf[i].fd);
    int stt = 0;
    while (waitpid(pid, &stt, 0) < 0 && errno == EINTR) {}
    if (WIFSIGNALED(stt)) o.sig = WTERMSIG(stt);
    else o.code = WEXITSTATUS(stt);
    if (o.timeout || o.sig || o.code) return o;
    // parse
    size_t pos = 0;
    auto u32 = [&](uint32_t &v) -> bool { if (pos + 4 > out.size()) return false; memcpy(&v, out.data() + pos, 4); pos += 4; return true; };
    uint32_t ne = 0;
    if (!u32(ne)) return o;
    for (uint32_t i = 0; i < ne; ++i) {
        Ev e; uint32_t v = 0, na = 0, nc = 0;
        if (!u32(v)) return o; e.uid = int(v);
        if (!u32(v)) return o; e.status = int(v);
        if (!u32(na)) return o;
        for (uint32_t k = 0; k < na; ++k) { c15ref::RepA a; if (!u32(a.ttl) || pos + 4 > out.size()) return o; memcpy(a.ip, out.data() + pos, 4); pos += 4; e.a.push_back(a); }
        if (!u32(nc)) return o;
        for (uint32_t k = 0; k < nc; ++k) { c15ref::RepC x; uint32_t l = 0; if (!u32(x.ttl) || !u32(l) || pos + l > out.size()) return o; x.name.assign(out.data() + pos, l); pos += l; e.c.push_back(x); }
        o.evs.push_back(e);
    }
    uint32_t magic = 0;
    o.ok = u32(magic) && magic == 0x454e4421u;
    return o;
}

//--------------------------------------------------------------------------------------------------------------
// memcheck attribution
std::string g_vg_log;
size_t g_vg_log_pos = 0;

std::string vg_new_text() {
    std::string s;
    FILE *f = fopen(g_vg_log.c_str(), "rb");
    if (!f) return s;
    fseek(f, long(g_vg_log_pos), SEEK_SET);
    char tmp[8192]; size_t k;
    while ((k = fread(tmp, 1, sizeof tmp, f)) > 0) s.append(tmp, k);
    fclose(f);
    g_vg_log_pos += s.size();
    return s;
}

//! "memcheck/<kind>@<first tbox frame>" for every report in a piece of valgrind log
std::vector<std::pair<std::string, std::string>> vg_reports(const std::string &txt) {
    std::vector<std::pair<std::string, std::string>> v;
    std::vector<std::string> lines;
    { std::string cur; for (char ch : txt) { if (ch == '\n') { lines.push_back(cur); cur.clear(); } else cur += ch; } if (!cur.empty()) lines.push_back(cur); }
    auto strip = [](const std::string &l) -> std::string { size_t p = l.find("== "); return p == std::string::npos ? (l.size() > 2 && l.compare(l.size() - 2, 2, "==") == 0 ? "" : l) : l.substr(p + 3); };
    for (size_t i = 0; i < lines.size(); ++i) {
        std::string l = strip(lines[i]);
        const char *kind = nullptr;
        if (l.find("Conditional jump or move depends on uninitialised") == 0) kind = "uninitialised-read";
        else if (l.find("Use of uninitialised value") == 0) kind = "uninitialised-read";
        else if (l.find("Invalid read") == 0) kind = "invalid-read";
        else if (l.find("Invalid write") == 0) kind = "invalid-write";
        else if (l.find("Syscall param") == 0) kind = "uninitialised-read";   // e.g. the harness printing a garbage Result
        else if (l.find("Source and destination overlap") == 0) kind = "overlap";
        else if (l.find("Invalid free") == 0 || l.find("Mismatched free") == 0) kind = "invalid-free";
        if (!kind) continue;
        std::string site = "?", block = l + "\n";
        for (size_t j = i + 1; j < lines.size(); ++j) {
            std::string m = strip(lines[j]);
            if (m.empty()) break;
            block += m + "\n";
            // frame: "at|by 0xADDR: <function signature> (file:line)"; the first frame whose function is in tbox:: names the site
            size_t p = m.find(": ");
            if (site == "?" && p != std::string::npos && (m.find("at 0x") == 0 || m.find("by 0x") == 0 || m.find("at 0x") < 6 || m.find("by 0x") < 6)) {
                std::string f = m.substr(p + 2);
                if (f.compare(0, 6, "tbox::") == 0) {
                    f = f.substr(6);
                    size_t an;
                    while ((an = f.find("(anonymous namespace)::")) != std::string::npos) f.erase(an, 23);
                    size_t q = f.find('(');
                    if (q != std::string::npos) f = f.substr(0, q);
                    site = f;
                }
            }
        }
        // no library frame: the undefined bytes were read by the harness out of the Result the callback was given
        if (site == "?" && std::string(kind) == "uninitialised-read") site = "result-handed-to-callback";
        v.push_back(std::make_pair(std::string("memcheck/") + kind + "@" + site, block.substr(0, 2500)));
    }
    return v;
}

//--------------------------------------------------------------------------------------------------------------
// parse / memcheck
void count_slack(const c15gen::SlackInfo &si) {
    vh::counter("cname_rdlength_longer_than_name", si.slack_cnames);
    vh::counter("cname_slack_shaped_like_a_record", si.shaped_like_a_record);
    vh::counter("cname_slack_shaped_like_a_record_header", si.shaped_like_a_header);
    vh::counter("cname_slack_zeros", si.zeros);
    vh::counter("cname_slack_random_bytes", si.random);
    vh::counter("cname_slack_after_compression_pointer", si.after_pointer);
    vh::counter("records_after_slack_cname", si.records_after_slack);
    vh::counter("unknown_type_records_with_record_shaped_rdata", si.control_unknown_shaped);
}

//! harness self-check: the reference must read out of a generated reply exactly what the generator put in
void check_ref_against_generator(const c15gen::Reply &R, bool want_strict, uint64_t idx) {
    c15ref::Info I = c15ref::classify(R.b.data(), R.b.size());
    bool same = (want_strict ? I.strict : (I.framed && !I.strict)) && I.a.size() == R.ea.size() && I.c.size() == R.ec.size();
    for (size_t i = 0; same && i < I.a.size(); ++i) same = I.a[i].ttl == R.ea[i].ttl && memcmp(I.a[i].ip, R.ea[i].ip, 4) == 0;
    for (size_t i = 0; same && i < I.c.size(); ++i) same = I.c[i].ttl == R.ec[i].ttl && I.c[i].name == R.ec[i].name;
    if (!same) { fprintf(stderr, "VH-FATAL: reference-disagrees-with-generator why=%s case=%llu\n", I.why.c_str(), (unsigned long long)idx); abort(); }
}

struct ParseStats { unsigned n_dg = 0, n_isolated = 0; bool strict_with_records = false; };

void run_datagram_(Ctx &c, vh::Rng &r, const c15gen::Dg &dg, const std::string &domain, bool memcheck, ParseStats &ps);
void run_datagram(Ctx &c, vh::Rng &r, const c15gen::Dg &dg, const std::string &domain, bool memcheck, ParseStats &ps) {
    struct timespec t0, t1;
    clock_gettime(CLOCK_MONOTONIC, &t0);
    run_datagram_(c, r, dg, domain, memcheck, ps);
    clock_gettime(CLOCK_MONOTONIC, &t1);
    double ms = (t1.tv_sec - t0.tv_sec) * 1e3 + (t1.tv_nsec - t0.tv_nsec) / 1e6;
    if (vh::st().args.verbose && ms > 100) fprintf(stderr, "[c15] slow datagram: class %s, %zu bytes, %.0f ms\n", dg.tag.c_str(), dg.b.size(), ms);
}
void run_datagram_(Ctx &c, vh::Rng &r, const c15gen::Dg &dg, const std::string &domain, bool memcheck, ParseStats &ps) {
    int srv = int(r.below(c.nsrv));
    size_t pa = r.below(5), pb = (pa + 1 + r.below(4)) % 5;
    if (memcheck) pa = r.below(3);   // small garbage counts: under valgrind a 65535-round loop of the unfixed reader costs seconds
    std::string outcome[2];
    bool risky = false, foreign = false;
    bool names_own_lookup[2] = {false, false};   // does the datagram's id field equal the id of the lookup issued for this run?
    for (int run = 0; run < 2; ++run) {
        int uid = c.request(domain);
        uint16_t id = c.lk[uid].id;
        Bytes b = dg.b;
        if (dg.tag == "wrong-id") {
            unsigned d = b.size() >= 2 ? c15ref::rd16(b.data()) : 0;
            if (d == 0) d = 77;
            c15gen::set16(b, 0, (id + d) & 0xffff);
        } else if (!dg.keep_id) c15gen::set16(b, 0, id);
        names_own_lookup[run] = b.size() >= 2 && c15ref::rd16(b.data()) == id;
        // the id bytes are part of what a pointer into the header reads, so each run is classified on its own bytes
        int depth = c15ref::chain_depth(b.data(), b.size());
        risky = depth > 16;
        if (run == 0) {
            vh::counter("dgclass_" + dg.tag);
            if (depth >= (1 << 30)) vh::counter("datagrams_with_pointer_cycle");
            else if (depth > 16) vh::counter("datagrams_with_pointer_chain_over_16");
            if (depth < (1 << 30)) vh::counter_max("max_pointer_chain_generated", uint64_t(depth));
            ++ps.n_dg;
        }
        const uint8_t *pat = kPatterns[run == 0 ? pa : pb];
        if (vh::st().args.verbose) fprintf(stderr, "[c15] next datagram: class %s run %d %s %s\n", dg.tag.c_str(), run, risky ? "isolated" : "in-process", hexs(b).c_str());
        if (risky) {
            if (memcheck) { vh::counter("memcheck_skipped_isolated_datagrams"); c.cancel_id(id, "cleanup"); return; }
            ++ps.n_isolated;
            vh::counter("datagrams_run_in_isolated_child");
            Exp x = c.preview(b.data(), b.size(), srv);
            c.desc() += vh::fmt("dg[%s,isolated,len=%zu,id=%u,%s]; ", dg.tag.c_str(), b.size(), x.info.id, x.why.c_str());
            ChildOut o = run_in_child(c, b, srv, pat[0], pat[1]);
            std::string ctx = vh::fmt(" | datagram(%zu bytes, %s, class %s)=%s", b.size(), x.why.c_str(), dg.tag.c_str(), hexs(b).substr(0, 1400).c_str());
            if (o.timeout) vh::viol("parser/compression/does-not-terminate", "isolated child still busy after 120 s" + ctx);
            else if (o.sig || o.code) {
                bool so = o.code == 77 || o.err.find("stack-overflow") != std::string::npos;
                std::string kind = "signal-" + std::to_string(o.sig ? o.sig : o.code);
                size_t p = o.err.find("ERROR: AddressSanitizer: ");
                if (p != std::string::npos) { kind.clear(); for (size_t i = p + 25; i < o.err.size() && (isalnum((unsigned char)o.err[i]) || o.err[i] == '-'); ++i) kind += o.err[i]; }
                size_t q = o.err.find("runtime error: ");
                if (p == std::string::npos && q != std::string::npos) kind = "ubsan";
                if (so) vh::viol("parser/compression/unbounded-recursion", "child died of stack exhaustion while following compression pointers: " + o.err.substr(0, 600) + ctx);
                else vh::viol("parser/isolated-child/" + kind, o.err.substr(0, 1500) + ctx);
            } else if (!o.ok) vh::viol("parser/isolated-child/garbled-result", ctx);
            else { c.commit(x, b, o.evs); vh::counter("isolated_children_returned"); }
            c.cancel_id(id, "cleanup");
            return;   // one run is enough for isolated datagrams
        }
        unsigned before = memcheck ? VALGRIND_COUNT_ERRORS : 0;
        prefill_stack(pat[0], pat[1]);
        std::string out = c.deliver(b, srv, dg.tag.c_str());
        if (c.last_named_uid >= 0 && c.last_named_uid != uid) foreign = true;   // the datagram named one of the background lookups
        if (memcheck) {
            unsigned after = VALGRIND_COUNT_ERRORS;
            vh::counter("memcheck_datagrams");
            if (after != before) {
                vh::counter("memcheck_errors", after - before);
                auto reps = vg_reports(vg_new_text());
                for (auto &kv : reps)
                    vh::viol(kv.first, kv.second + vh::fmt(" | datagram(%zu bytes, class %s)=%s", b.size(), dg.tag.c_str(), hexs(b).substr(0, 600).c_str()));
                if (reps.empty()) vh::counter("memcheck_errors_repeating_an_earlier_report");
            }
        }
        // outcome without lookup numbers; CNAME names only by length (a pointer into the header makes the lookup's own id,
        // which differs between the two runs, part of a name; the content of every name is checked by the reference anyway)
        outcome[run] = out;
        if (run == 0 && dg.tag == "strict" && !out.empty() && out.find("A[0] CNAME[0]") == std::string::npos) ps.strict_with_records = true;
        c.cancel_id(id, "cleanup");
        if (memcheck) return;
    }
    // a datagram that completed (or counted against) a background lookup changed the state the other run saw
    if (foreign) { vh::counter("differential_skipped_named_a_background_lookup"); return; }
    // a datagram that keeps its own id bytes (random bytes, kept-id classes) can by coincidence carry the id of the lookup of
    // one run and not of the other (ids advance between the runs): then the two runs did not see the same situation
    if (names_own_lookup[0] != names_own_lookup[1]) { vh::counter("differential_skipped_id_matched_in_one_run_only"); return; }
    // a pointer that lands on the id field makes the parse depend on the lookup's id, which differs between the runs
    for (size_t o = 0; o + 1 < dg.b.size(); ++o)
        if ((dg.b[o] & 0xc0) == 0xc0 && ((size_t(dg.b[o] & 0x3f) << 8) | dg.b[o + 1]) < 2) { vh::counter("differential_skipped_pointer_to_id"); return; }
    vh::counter("differential_pairs");
    if (outcome[0] != outcome[1])
        vh::viol("parser/uninit/outcome-depends-on-stack-garbage",
                 vh::fmt("same datagram (class %s), same client state, different stale stack contents: run 1 -> {%s}  run 2 -> {%s} | datagram(%zu bytes)=%s",
                         dg.tag.c_str(), outcome[0].substr(0, 300).c_str(), outcome[1].substr(0, 300).c_str(), dg.b.size(), hexs(dg.b).substr(0, 1000).c_str()));
}

void parse_case(uint64_t idx, vh::Rng &r, bool memcheck) {
    Ctx c;
    c.rng = &r;
    c.open(r.chance(2, 3) ? 1 : 2 + int(r.below(2)));
    unsigned nbg = r.below(3);
    for (unsigned i = 0; i < nbg; ++i) c.request(c15gen::rand_domain(r));
    std::string domain = c15gen::rand_domain(r);
    std::vector<c15gen::Dg> dgs;
    c15gen::Reply base = c15gen::make_reply(r, 0, domain);
    vh::Sig sig;
    sig.add(std::string(base.b.begin(), base.b.end()));
    check_ref_against_generator(base, true, idx);
    c15gen::add(dgs, base.b, "strict");
    for (int i = 0; i < 3; ++i) c15gen::add(dgs, c15gen::make_reply(r, 0, domain).b, "strict");
    // CNAME records whose RDLENGTH exceeds the encoded name (slack bytes, some shaped like records), real records behind them
    for (int i = 0; i < 4; ++i) {
        c15gen::SlackInfo si;
        c15gen::Reply sl = c15gen::make_slack_reply(r, 0, domain, si);
        check_ref_against_generator(sl, false, idx);
        count_slack(si);
        c15gen::add(dgs, sl.b, "cname-slack");
        if (i == 0) {   // and a few cuts of it: inside the slack, inside the record behind it
            for (int k = 0; k < 6; ++k) c15gen::add(dgs, Bytes(sl.b.begin(), sl.b.begin() + 12 + r.below(sl.b.size() - 12)), "cname-slack-cut");
        }
    }
    c15gen::make_variants(base, r, dgs, !memcheck && r.chance(1, 2));
    {
        c15gen::Reply odd = c15gen::make_odd_reply(r, 0, domain);
        c15gen::add(dgs, odd.b, "odd-names");
        c15gen::Reply odd2 = c15gen::make_odd_reply(r, 0, domain);
        c15gen::add(dgs, odd2.b, "odd-names");
    }
    if (memcheck) {   // keep every class, thin out the bulk (valgrind is ~30x slower)
        std::vector<c15gen::Dg> keep;
        unsigned cuts = 0;
        for (auto &d : dgs) {
            if (d.tag == "cut" && ++cuts > 16 && !r.chance(1, 5)) continue;
            if (d.tag == "an-ffff" || d.tag == "qd-ffff" || d.tag == "one-a-count-ffff") continue;   // 65535 rounds: asan leg only
            keep.push_back(d);
        }
        dgs.swap(keep);
    }
    ParseStats ps;
    size_t desc_mark = c.desc().size();
    for (auto &d : dgs) {
        if (c.desc().size() > desc_mark + 1500) c.desc().resize(desc_mark);   // witnesses carry the datagram itself
        run_datagram(c, r, d, domain, memcheck, ps);
    }
    if (vh::want_sample()) {
        c15ref::Info I = c15ref::classify(base.b.data(), base.b.size());
        vh::sample(vh::fmt("{\"mode\":\"parse\",\"well_formed_reply_hex\":\"%s\",\"A_records\":%zu,\"CNAME_records\":%zu,\"max_pointer_jumps\":%d,"
                           "\"derived_datagrams\":%u,\"run_in_isolated_child\":%u}", hexs(base.b).c_str(), I.a.size(), I.c.size(), I.max_jumps, ps.n_dg, ps.n_isolated));
    }
    sig.add(ps.n_dg);
    c.close();
    vh::note_case(sig.h, ps.strict_with_records);
}

//--------------------------------------------------------------------------------------------------------------
// history / udp
struct UdpNet {
    int fd[3] = {-1, -1, -1};
    struct sockaddr_in client;
    bool have_client = false;
    uint64_t sent = 0, consumed = 0;
    bool pending = false;
    Exp px;
    Bytes pdg;
    Ctx *ctx = nullptr;

    void setup() {
        for (int i = 0; i < 3; ++i) {
            fd[i] = socket(AF_INET, SOCK_DGRAM | SOCK_NONBLOCK, 0);
            struct sockaddr_in a;
            memset(&a, 0, sizeof a);
            a.sin_family = AF_INET; a.sin_port = htons(53); a.sin_addr.s_addr = htonl(0x7f000001u + unsigned(i));
            if (fd[i] < 0 || bind(fd[i], reinterpret_cast<struct sockaddr *>(&a), sizeof a) != 0) {
                fprintf(stderr, "VH-FATAL: cannot-bind-fake-dns-server-127.0.0.%d:53 (%s)\n", i + 1, strerror(errno));
                abort();
            }
            g_server_fds.insert(fd[i]);
        }
        g_real_net = true;
        g_on_client_recv = [this](const uint8_t *p, size_t n, const struct sockaddr_in &sin) { on_recv(p, n, sin); };
    }
    void finish_pending() {
        if (!pending) return;
        pending = false;
        ctx->step = S_NONE;
        std::vector<Ev> got;
        got.swap(ctx->evs);
        ctx->commit(px, pdg, got);
    }
    void on_recv(const uint8_t *p, size_t n, const struct sockaddr_in &sin) {
        if (!ctx) return;
        ++consumed;
        vh::counter("udp_datagrams_consumed_by_client");
        finish_pending();
        if (n == 0) { vh::counter("udp_empty_datagrams"); return; }
        int srv = int(ntohl(sin.sin_addr.s_addr) & 0xff) - 1;
        px = ctx->preview(p, n, srv);
        pdg.assign(p, p + n);
        ctx->desc() += vh::fmt("recv[srv%d,len=%zu,id=%u,%s]; ", srv, n, px.info.id, px.why.c_str());
        ctx->evs.clear();
        ctx->step = S_DGRAM;
        pending = true;
    }
    void pass() {
        pump(1);
        finish_pending();
        if (g_recv_longer_than_buffer) { vh::counter("udp_recvfrom_returned_more_than_the_buffer_holds", g_recv_longer_than_buffer); g_recv_longer_than_buffer = 0; }
    }
    void drain() {
        for (int g = 0; sent > consumed && !ctx->by_id.empty() && g < 60; ++g) pass();
        if (sent > consumed && !ctx->by_id.empty() && !stuck_reported) {
            stuck_reported = true;
            vh::viol("udp/reply-left-unread-while-lookups-outstanding",
                     vh::fmt("%llu datagram(s) from the fake servers are queued on the client's socket, %zu lookup(s) are outstanding, and 60 loop passes did not read them",
                             (unsigned long long)(sent - consumed), ctx->by_id.size()));
        }
    }
    bool stuck_reported = false;
    //! servers read the queries the client sent (learn its address; check each query names its lookup)
    void read_queries(Ctx &c) {
        for (int i = 0; i < 3; ++i) {
            for (;;) {
                uint8_t buf[1024];
                struct sockaddr_in from; socklen_t fl = sizeof from;
                ssize_t n = __real_recvfrom(fd[i], buf, sizeof buf, 0, reinterpret_cast<struct sockaddr *>(&from), &fl);
                if (n <= 0) break;
                client = from; have_client = true;
                vh::counter("udp_queries_received_by_fake_servers");
                if (i >= c.nsrv) vh::viol("udp/query-sent-to-unconfigured-server", vh::fmt("server %d", i));
            }
        }
    }
    void send(const Bytes &b, int srv) {
        if (!have_client) return;
        ssize_t k = __real_sendto(fd[srv], b.data(), b.size(), 0, reinterpret_cast<struct sockaddr *>(&client), sizeof client);
        if (k == ssize_t(b.size())) { ++sent; vh::counter("udp_datagrams_sent_by_fake_servers"); }
    }
};
UdpNet g_net;

struct Hist {
    Ctx &c; vh::Rng &r; bool udp;
    std::vector<std::pair<Bytes, int>> sent_log;
    unsigned n_replies = 0, n_ticks = 0, n_cancels = 0, n_dups = 0, n_servfail = 0;
    vh::Sig sig;

    Hist(Ctx &c_, vh::Rng &r_, bool u) : c(c_), r(r_), udp(u) {}

    int lookup(int react) {
        int uid = c.request(c15gen::rand_domain(r), react);
        if (udp) { g_net.read_queries(c); g_net.drain(); }
        return uid;
    }
    void send(const Bytes &b, int srv, const char *tag, bool log = true) {
        if (log) sent_log.push_back(std::make_pair(b, srv));
        sig.add(std::string(tag)); sig.add(uint64_t(srv));
        if (udp) {
            c.desc() += vh::fmt("send[%s,srv%d,len=%zu]; ", tag, srv, b.size());
            g_net.send(b, srv);
            if (c.by_id.empty()) vh::counter("udp_datagrams_sent_while_no_lookup_outstanding");
            g_net.drain();
        } else c.deliver(b, srv, tag);
    }
    void tick(uint64_t ms) {
        if (udp) g_net.drain();
        c.tick(ms);
        if (udp) { g_net.read_queries(c); g_net.drain(); }
        ++n_ticks; sig.add(ms);
    }
    void op() {
        std::vector<int> out = c.outstanding();
        unsigned w = r.below(100);
        if (out.empty() && !c.lk.empty() && r.chance(1, 4)) {   // nothing outstanding: the client must not react (udp: it is not even listening)
            Lk &L = c.lk[r.below(c.lk.size())];
            vh::counter("datagrams_sent_while_no_lookup_outstanding");
            send(c15gen::make_reply(r, L.id, L.domain).b, int(r.below(c.nsrv)), "idle");
            return;
        }
        if (out.empty() || w < 22) {
            unsigned k = r.below(100);
            lookup(k < 70 ? R_NONE : k < 85 ? R_NEW_LOOKUP : R_CANCEL_OTHER);
            sig.add(1);
        } else if (w < 30) {
            unsigned k = r.below(100);
            ++n_cancels; sig.add(2);
            if (k < 60) c.cancel_id(c.lk[out[r.below(out.size())]].id, "outstanding");
            else if (k < 85) {
                std::vector<int> fin;
                for (auto &L : c.lk) if (L.st != OUT) fin.push_back(L.uid);
                if (!fin.empty()) c.cancel_id(c.lk[fin[r.below(fin.size())]].id, "finished"); else c.cancel_id(uint16_t(40000 + r.below(1000)), "never-issued");
            } else c.cancel_id(uint16_t(40000 + r.below(1000)), "never-issued");
        } else if (w < 75) {
            Lk &L = c.lk[out[r.below(out.size())]];
            int srv = int(r.below(c.nsrv));
            if (udp && r.chance(1, 7)) {
                // a reply longer than the client's receive buffer: the client holds only its first 4096 bytes, which are a reply cut
                // inside a record - it may ignore it or answer from what it holds; a normal reply may follow
                std::string layout;
                Bytes big = c15gen::make_oversized(r, L.id, L.domain, layout);
                c15ref::Info full = c15ref::classify(big.data(), big.size());
                vh::counter("udp_oversized_datagrams_sent");
                vh::counter("udp_oversized_" + layout);
                if (full.strict && big.size() > 4096) vh::counter("udp_oversized_reply_crossing_4096");
                vh::counter_max("max_udp_datagram_bytes", big.size());
                uint16_t id = L.id; std::string dom = L.domain;   // L may be gone after the send
                ++n_replies;
                send(big, srv, "oversized");
                if (r.chance(1, 2)) { vh::counter("udp_oversized_followed_by_normal_reply"); send(c15gen::make_reply(r, id, dom).b, int(r.below(c.nsrv)), "strict-after-oversized"); }
                return;
            }
            if (r.chance(1, 10)) {   // CNAME records with slack behind the name, real records behind them
                c15gen::SlackInfo si;
                c15gen::Reply sl = c15gen::make_slack_reply(r, L.id, L.domain, si);
                count_slack(si);
                ++n_replies;
                send(sl.b, srv, "cname-slack");
                return;
            }
            unsigned k = r.below(100);
            ++n_replies;
            if (k < 42) send(c15gen::make_reply(r, L.id, L.domain).b, srv, "strict");
            else if (k < 52) send(c15gen::make_reply(r, L.id, L.domain, 3).b, srv, "rcode3");
            else if (k < 57) send(c15gen::make_reply(r, L.id, L.domain, 1).b, srv, "rcode1");
            else if (k < 80) {
                static const int rcs[] = {2, 2, 2, 4, 5, 5, 6, 9, 15};
                ++n_servfail;
                send(c15gen::make_reply(r, L.id, L.domain, r.pick(rcs)).b, srv, "servfail");
            } else if (k < 92) send(c15gen::safe_malformed(c15gen::make_reply(r, L.id, L.domain), r), srv, "malformed");
            else if (k < 96) { Bytes q = c15gen::make_reply(r, L.id, L.domain).b; q[2] &= 0x7f; send(q, srv, "query-echo"); }
            else { Bytes q = c15gen::make_reply(r, uint16_t(L.id + 1 + r.below(3)), L.domain).b; send(q, srv, "neighbour-id"); }
        } else if (w < 84) {
            if (sent_log.empty()) return;
            auto &p = sent_log[r.below(sent_log.size())];
            ++n_dups;
            send(p.first, r.chance(1, 2) ? p.second : int(r.below(c.nsrv)), "duplicate", false);
        } else if (w < 88) {
            std::vector<int> fin;
            for (auto &L : c.lk) if (L.st != OUT) fin.push_back(L.uid);
            uint16_t id = fin.empty() ? uint16_t(30000 + r.below(1000)) : c.lk[fin[r.below(fin.size())]].id;
            send(c15gen::make_reply(r, id, "stale.example").b, int(r.below(c.nsrv)), "stale");
        } else {
            static const unsigned steps[] = {1000, 1000, 999, 1, 500, 250};
            tick(r.chance(1, 2) ? r.pick(steps) : 1 + r.below(1000));
        }
        if (r.chance(1, 2)) {
            unsigned n = c.lk.size();
            c.check_running(c.lk[r.below(n)].id);
            if (r.chance(1, 6)) c.check_running(uint16_t(r.below(65536)));
        }
    }
};

void history_case(uint64_t, vh::Rng &r, bool udp) {
    Ctx c;
    c.rng = &r;
    if (udp) {   // queries left over from the previous case's client are not this case's
        for (int i = 0; i < 3; ++i) { uint8_t b[64]; while (__real_recvfrom(g_net.fd[i], b, sizeof b, 0, nullptr, nullptr) > 0) {} }
    }
    if (udp) { g_net.ctx = &c; g_net.sent = g_net.consumed = 0; g_net.have_client = false; g_net.pending = false; g_net.stuck_reported = false; }
    c.open(1 + int(r.below(3)));
    Hist h(c, r, udp);
    unsigned nops = 12 + r.below(34);
    for (unsigned i = 0; i < nops; ++i) h.op();
    if (udp) g_net.drain();
    // let everything still outstanding run into its timeout, in uneven steps
    for (int i = 0; i < 14 && !c.by_id.empty(); ++i) h.tick(r.chance(1, 2) ? 1000 : 300 + r.below(700));
    c.finish_history();
    // replies that arrive after the timeout / completion / cancellation must be ignored
    unsigned late = 0;
    if (!c.lk.empty()) {
        int uid = c.request(c15gen::rand_domain(r));   // keeps the client listening
        if (udp) { g_net.read_queries(c); g_net.drain(); }
        for (size_t li = 0; li < c.lk.size(); ++li) {
            Lk &L = c.lk[li];
            if (L.uid == uid || late >= 4 || L.st == OUT) continue;
            h.send(c15gen::make_reply(r, L.id, L.domain).b, int(r.below(c.nsrv)), "late", false);
            ++late;
            vh::counter(L.timed_out ? "late_reply_after_timeout" : L.st == CANCELLED ? "late_reply_after_cancel" : "late_reply_after_completion");
        }
        c.cancel_id(c.lk[uid].id, "cleanup");
    }
    if (udp) { g_net.finish_pending(); g_net.ctx = nullptr; }
    unsigned done = 0, cancelled = 0, timed = 0;
    for (auto &L : c.lk) { done += L.st == DONE; cancelled += L.st == CANCELLED; timed += L.timed_out; }
    if (vh::want_sample(2)) vh::sample("{\"mode\":" + vh::jstr(udp ? "udp" : "history") + ",\"script\":" + vh::jstr(c.desc().substr(0, 2500)) + "}", 2);
    c.close();
    vh::note_case(h.sig.h, done >= 1 && h.n_replies >= 2 && (cancelled + timed) >= 1);
}

//--------------------------------------------------------------------------------------------------------------
// wrap: more than 65536 lookups on one client
void wrap_case(uint64_t, vh::Rng &r) {
    Ctx c;
    c.rng = &r;
    c.open(1);
    unsigned total = 65537 + unsigned(r.below(3000));
    vh::Sig sig;
    std::deque<int> pending;
    std::string head = c.desc();
    unsigned answered = 0, cancelled = 0, left = 0;
    bool wrapped = false;
    uint16_t prev_id = 0;
    for (unsigned i = 0; i < total; ++i) {
        if (c.desc().size() > 3000) c.desc() = head + vh::fmt("...(%u lookups so far)... ", i);
        int uid = c.request("w.example");
        uint16_t id = c.lk[uid].id;
        if (i > 0 && id < prev_id) { wrapped = true; vh::counter("id_counter_wrapped"); }
        prev_id = id;
        unsigned k = r.below(100);
        if (k < 60) { c.deliver(c15gen::make_reply(r, id, "w.example", 0, 2).b, 0, "strict"); ++answered; }
        else if (k < 80) { c.cancel_id(id, "outstanding"); ++cancelled; }
        else { pending.push_back(uid); ++left; }
        if (i % 40 == 39) c.tick(100 + r.below(400));
        sig.add(k);
    }
    c.finish_history();
    vh::counter("wrap_lookups", total);
    if (vh::want_sample(1)) vh::sample(vh::fmt("{\"mode\":\"wrap\",\"lookups\":%u,\"answered\":%u,\"cancelled\":%u,\"left_to_time_out\":%u,\"wrapped\":%s}", total, answered, cancelled, left, wrapped ? "true" : "false"), 1);
    c.close();
    vh::note_case(sig.h, wrapped);
}

//! witness: `c15_dns --mode witness --hex <datagram> [--servers N] [--keepid 1]` injects one datagram for one outstanding lookup
//! (bytes 0-1 of the datagram are overwritten with the lookup's id unless --keepid 1), twice with different stale stacks, through the same oracle and prints what happened
void witness_case(uint64_t, vh::Rng &r) {
    Ctx c;
    c.rng = &r;
    c.open(int(vh::st().args.num("servers", 1)));
    std::string hx = vh::st().args.str("hex");
    Bytes b;
    for (size_t i = 0; i + 1 < hx.size(); i += 2) b.push_back(uint8_t(strtoul(hx.substr(i, 2).c_str(), nullptr, 16)));
    c15gen::Dg dg{b, "witness", vh::st().args.num("keepid", 0) != 0};
    ParseStats ps;
    run_datagram(c, r, dg, "witness.example", false, ps);
    fprintf(stderr, "[c15 witness] %s\n", c.desc().c_str());
    c.close();
    vh::note_case(1, true);
}

bool private_netns() {
    if (unshare(CLONE_NEWNET) != 0) return false;
    int s = socket(AF_INET, SOCK_DGRAM, 0);
    if (s < 0) return false;
    struct ifreq ifr;
    memset(&ifr, 0, sizeof ifr);
    strcpy(ifr.ifr_name, "lo");
    bool ok = ioctl(s, SIOCGIFFLAGS, &ifr) == 0;
    if (ok) { ifr.ifr_flags |= IFF_UP | IFF_RUNNING; ok = ioctl(s, SIOCSIFFLAGS, &ifr) == 0; }
    close(s);
    return ok;
}

}  // namespace

int main(int argc, char **argv) {
    std::string mode, out, first = "0";
    for (int i = 1; i + 1 < argc; ++i) {
        if (!strcmp(argv[i], "--mode")) mode = argv[i + 1];
        if (!strcmp(argv[i], "--out")) out = argv[i + 1];
        if (!strcmp(argv[i], "--first")) first = argv[i + 1];
    }
    if (mode == "memcheck") {
        std::string log = (out.empty() ? std::string("/var/tmp") : out) + "/c15_vg." + first + "." + std::to_string(getpid()) + ".log";
        if (!getenv("C15_UNDER_VALGRIND")) {
            setenv("C15_UNDER_VALGRIND", log.c_str(), 1);
            std::vector<std::string> av = {"valgrind", "--tool=memcheck", "--error-exitcode=0", "--leak-check=no", "--num-callers=24",
                                           "--undef-value-errors=yes", "--error-limit=no", "--log-file=" + log, argv[0]};
            for (int i = 1; i < argc; ++i) av.push_back(argv[i]);
            std::vector<char *> cv;
            for (auto &s : av) cv.push_back(const_cast<char *>(s.c_str()));
            cv.push_back(nullptr);
            execvp("valgrind", cv.data());
            fprintf(stderr, "VH-FATAL: cannot-exec-valgrind (%s)\n", strerror(errno));
            return 3;
        }
        g_vg_log = getenv("C15_UNDER_VALGRIND");
        if (!RUNNING_ON_VALGRIND) { fprintf(stderr, "VH-FATAL: not-running-on-valgrind\n"); return 3; }
    }
    bool ns = private_netns();
    if (mode == "udp") {
        if (!ns) { fprintf(stderr, "VH-FATAL: private-network-namespace-unavailable (%s)\n", strerror(errno)); return 3; }
        g_net.setup();
    }
    tbox::event::verif::SetSteadyClockMs(clock_fn);
    g_loop = tbox::event::Loop::New();
    int rc = vh::run(argc, argv, [&](uint64_t idx, vh::Rng &r) {
        if (mode == "parse") parse_case(idx, r, false);
        else if (mode == "memcheck") parse_case(idx, r, true);
        else if (mode == "history") history_case(idx, r, false);
        else if (mode == "udp") history_case(idx, r, true);
        else if (mode == "wrap") wrap_case(idx, r);
        else if (mode == "witness") witness_case(idx, r);
        else { fprintf(stderr, "VH-FATAL: unknown-mode\n"); abort(); }
    });
    if (!g_vg_log.empty()) unlink(g_vg_log.c_str());
    delete g_loop;
    return rc;
}
