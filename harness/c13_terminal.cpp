// C13: terminal shell - hostile input is harmless; line editing matches a reference.
//
// modes
//   editor   key scripts (every key's encoding unsplit, 1..n keys per onRecvString) against Terminal's public
//            interface with a recording Connection; lock-step with the reference editor / classifier of
//            c13_ref.hpp; observables: argument vectors received by probe function nodes, "# " prompt sends,
//            the shell's own `history` listing, Connection::endSession.
//   histref  enumerated sub-space: history fill level x history reference form x echo x leading blanks.
//   hostile  arbitrary bytes / split escape prefixes / command soup over random node trees (cyclic mounts,
//            deleted nodes, umounts while a session sits inside), several sessions, repeated `exit`.
//   telnet   Telnetd on a real loopback TCP socket: clean clients (keys unsplit, IAC commands cut anywhere)
//            checked for probe calls / prompts / negotiation replies / EOF after exit, hostile clients
//            (IAC soup, truncated SB, 0xFF runs, abrupt close, RST) checked for harmlessness and liveness.
//   tcprpc   the same through TcpRpc (quiet mode, no telnet layer).
//   service  session teardown through both front ends at once: many scripted sessions per case end by exit or by a
//            command node calling Session::endSession(), then send more bytes / close / reset an exact number of
//            loop passes later; no exception may leave the loop, the server must disconnect, others keep working.
#include "common/vh.hpp"
#include "c13_ref.hpp"

#include <tbox/event/loop.h>
#include <tbox/terminal/terminal.h>
#include <tbox/terminal/session.h>
#include <tbox/terminal/connection.h>
#include <tbox/terminal/service/telnetd.h>
#include <tbox/terminal/service/tcp_rpc.h>

#include <cxxabi.h>
#include <typeinfo>
#include <memory>
#include <algorithm>
#include <exception>
#include <thread>
#include <mutex>
#include <condition_variable>
#include <chrono>
#include <sys/socket.h>
#include <sys/types.h>
#include <netinet/in.h>
#include <netinet/tcp.h>
#include <sys/un.h>
#include <arpa/inet.h>
#include <errno.h>
#include <signal.h>

using namespace tbox::terminal;
using tbox::event::Loop;
using c13::Args;

namespace {

//! ------------------------------------------------------------------------------------------ helpers
std::string current_exception_name() {
    const std::type_info *t = abi::__cxa_current_exception_type();
    if (!t) return "unknown";
    int status = 0;
    char *d = abi::__cxa_demangle(t->name(), nullptr, nullptr, &status);
    std::string r = (status == 0 && d) ? d : t->name();
    free(d);
    return r;
}

std::string current_exception_what() {
    try { throw; }
    catch (const std::exception &e) { return e.what(); }
    catch (...) { return ""; }
}

std::string esc(const std::string &s) {
    std::string o;
    char b[8];
    for (unsigned char c : s) {
        if (c == '\\') o += "\\\\";
        else if (c >= 0x20 && c < 0x7f) o += (char)c;
        else { snprintf(b, sizeof b, "\\x%02x", c); o += b; }
    }
    return o;
}

std::string join_args(const Args &a) {
    std::string s;
    for (size_t i = 0; i < a.size(); ++i) { if (i) s += '\x1f'; s += a[i]; }
    return s;
}

std::string reply_marker(const Args &a) { return "<R:" + vh::hex(join_args(a)) + ">"; }

bool unhex(const std::string &h, std::string &out) {
    out.clear();
    if (h.size() % 2) return false;
    for (size_t i = 0; i < h.size(); i += 2) {
        int v = 0;
        for (int k = 0; k < 2; ++k) {
            char c = h[i + k];
            int d = (c >= '0' && c <= '9') ? c - '0' : (c >= 'a' && c <= 'f') ? c - 'a' + 10 : -1;
            if (d < 0) return false;
            v = v * 16 + d;
        }
        out += (char)v;
    }
    return true;
}

//! all "<R:hex>" markers of a byte stream, decoded back into argument vectors
std::vector<Args> parse_markers(const std::string &rx) {
    std::vector<Args> v;
    size_t p = 0;
    while ((p = rx.find("<R:", p)) != std::string::npos) {
        size_t e = rx.find('>', p);
        if (e == std::string::npos) break;
        std::string raw;
        if (unhex(rx.substr(p + 3, e - p - 3), raw)) {
            Args a;
            std::string cur;
            for (char c : raw) { if (c == '\x1f') { a.push_back(cur); cur.clear(); } else cur += c; }
            a.push_back(cur);
            v.push_back(a);
        }
        p = e + 1;
    }
    return v;
}

size_t count_sub(const std::string &hay, const std::string &needle) {
    size_t n = 0, p = 0;
    while ((p = hay.find(needle, p)) != std::string::npos) { ++n; p += needle.size(); }
    return n;
}

//! ------------------------------------------------------------------------------------------ recording Connection
struct SessRec {
    std::vector<std::string> sends;
    int end_calls = 0;
    bool dead = false;          //!< harness knows the session is gone (ended + pumped, or deleted by the harness)
};

//! thrown out of Connection::send when one delivered string has produced more output than any terminating handler
//! could (a handler that never terminates would otherwise eat all memory long before the watchdog sees it)
struct RunawayOutput {};
const uint64_t kMaxSendsPerDelivery = 1000000;

struct RecConn : public Connection {
    std::map<SessionToken, SessRec> recs;
    uint64_t sends_to_unknown = 0, sends_to_dead = 0, total_sends = 0, total_bytes = 0;
    uint64_t delivery_sends = 0;        //!< reset by the harness before every delivered string

    bool rec(const SessionToken &st, const std::string &s) {
        ++total_sends; total_bytes += s.size();
        if (++delivery_sends > kMaxSendsPerDelivery) throw RunawayOutput();
        auto it = recs.find(st);
        if (it == recs.end()) { ++sends_to_unknown; return false; }
        if (it->second.dead) ++sends_to_dead;
        it->second.sends.push_back(s);
        return true;
    }
    bool send(const SessionToken &st, char ch) override { return rec(st, std::string(1, ch)); }
    bool send(const SessionToken &st, const std::string &s) override { return rec(st, s); }
    bool endSession(const SessionToken &st) override {
        auto it = recs.find(st);
        if (it == recs.end()) return false;
        ++it->second.end_calls;
        return true;
    }
    bool isValid(const SessionToken &st) const override {
        auto it = recs.find(st);
        return it != recs.end() && it->second.end_calls == 0 && !it->second.dead;
    }
};

//! ------------------------------------------------------------------------------------------ keys
enum KeyKind { K_CHAR, K_BS, K_DEL, K_LEFT, K_RIGHT, K_HOME, K_END, K_UP, K_DOWN, K_ENTER, K_NOOP };

struct Key {
    KeyKind kind;
    char ch;
    std::string bytes;
    bool last_only;     //!< encoding is only that key when it ends the delivered string (bare CR, lone ESC)
    const char *name;
};

Key mk(KeyKind k, const std::string &bytes, const char *name, bool last_only = false, char ch = 0) {
    Key x; x.kind = k; x.ch = ch; x.bytes = bytes; x.last_only = last_only; x.name = name; return x;
}
Key key_char(char c) { return mk(K_CHAR, std::string(1, c), "char", false, c); }
Key key_bs(bool del7f) { return mk(K_BS, std::string(1, del7f ? '\x7f' : '\x08'), del7f ? "bs7f" : "bs08"); }
Key key_del() { return mk(K_DEL, "\x1b[3~", "delete"); }
Key key_left() { return mk(K_LEFT, "\x1b[D", "left"); }
Key key_right() { return mk(K_RIGHT, "\x1b[C", "right"); }
Key key_up() { return mk(K_UP, "\x1b[A", "up"); }
Key key_down() { return mk(K_DOWN, "\x1b[B", "down"); }
Key key_home() { return mk(K_HOME, "\x1b[1~", "home"); }
Key key_end() { return mk(K_END, "\x1b[4~", "end"); }
Key key_enter(int form) {
    switch (form) {
        case 0: return mk(K_ENTER, "\r\n", "enter_crlf");
        case 1: return mk(K_ENTER, "\n", "enter_lf");
        case 2: return mk(K_ENTER, std::string("\r\0", 2), "enter_crnul");
        default: return mk(K_ENTER, "\r", "enter_cr_trailing", true);
    }
}
Key key_noop(vh::Rng &r) {
    static const char *fixed[] = {"\t", "\x1bOP", "\x1bOQ", "\x1bOR", "\x1bOS", "\x1b[15~", "\x1b[17~", "\x1b[18~", "\x1b[19~",
                                  "\x1b[20~", "\x1b[21~", "\x1b[23~", "\x1b[24~", "\x1b[2~", "\x1b[5~", "\x1b[6~"};
    unsigned k = (unsigned)r.below(20);
    if (k < 16) return mk(K_NOOP, fixed[k], k == 0 ? "tab" : "fnkey");
    if (k == 16 || k == 17) {       // Alt+x: ESC followed by a printable other than '[' and 'O'
        char c;
        do { c = (char)r.range(0x20, 0x7e); } while (c == '[' || c == 'O');
        return mk(K_NOOP, std::string("\x1b") + c, "alt");
    }
    if (k == 18) return mk(K_NOOP, std::string("\xc2") + (char)r.range(0x81, 0x9a), "ctrlalt");
    return mk(K_NOOP, "\x1b", "esc_trailing", true);
}

//! ------------------------------------------------------------------------------------------ shell under test
struct Shell {
    Loop *loop = nullptr;
    Terminal *term = nullptr;
    RecConn conn;
    std::vector<Args> calls;            //!< every probe invocation since last clear
    std::set<std::string> probes;       //!< canonical absolute paths of probe nodes
    bool probe_reply = false;
    uint64_t probe_total = 0;

    Shell() {
        loop = Loop::New();
        term = new Terminal(loop);
    }
    Func probe_func() {
        return [this](const Session &s, const Args &a) {
            calls.push_back(a);
            ++probe_total;
            if (probe_reply) s.send(reply_marker(a) + "\r\n");
        };
    }
    //! fixed tree of the equivalence legs: /p /q /d/r /d/e/s are probes
    void build_fixed_tree() {
        NodeToken root = term->rootNode();
        NodeToken p = term->createFuncNode(probe_func(), "probe p");
        NodeToken q = term->createFuncNode(probe_func(), "probe q");
        NodeToken r = term->createFuncNode(probe_func(), "probe r");
        NodeToken s = term->createFuncNode(probe_func(), "probe s");
        NodeToken d = term->createDirNode("dir d");
        NodeToken e = term->createDirNode("dir e");
        term->mountNode(root, p, "p");
        term->mountNode(root, q, "q");
        term->mountNode(root, d, "d");
        term->mountNode(d, r, "r");
        term->mountNode(d, e, "e");
        term->mountNode(e, s, "s");
        probes.insert("/p"); probes.insert("/q"); probes.insert("/d/r"); probes.insert("/d/e/s");
    }
    void pump(int n) {
        for (int i = 0; i < n; ++i) {
            loop->runNext([] {});
            loop->runLoop(Loop::Mode::kOnce);
        }
    }
    ~Shell() {
        if (loop && term) { try { pump(2); } catch (...) {} }     // deferred closures hold pointers into the Terminal
        delete term;
        delete loop;
    }
};

//! ------------------------------------------------------------------------------------------ equivalence driver
struct Driver {
    Shell &sh;
    vh::Rng &rng;
    c13::RefEditor m;
    SessionToken st;
    bool echo = false;
    bool aborted = false;       //!< an exception escaped: stop the case
    vh::Sig sig;
    std::string desc;

    // pending (not yet delivered) string
    std::string buf;
    std::vector<c13::Item> items;
    std::vector<std::string> lines;     //!< reference lines of the Enters in buf (for messages)
    int enters = 0, need_errors = 0;
    bool wild = false, bang_pinned = false, exit_must = false, exit_may = false, need_sync = false;
    std::vector<std::string> sync_before;       //!< model history before the open Enter
    std::string sync_line;
    bool must_flush = false;

    // per-case facts for the non-triviality rule
    int mid_edits = 0, recalls_executed = 0, refs_checked = 0, must_items_checked = 0, sessions = 0;
    bool recalled_since_enter = false;

    Driver(Shell &s, vh::Rng &r) : sh(s), rng(r) {}

    void new_session() {
        st = sh.term->newSession(&sh.conn);
        sh.conn.recs[st] = SessRec();
        echo = rng.chance(1, 2);
        sh.term->setOptions(st, echo ? TerminalInteract::kEnableEcho : 0);
        sh.term->onBegin(st);
        SessRec &rec = sh.conn.recs[st];
        size_t prompts = std::count(rec.sends.begin(), rec.sends.end(), std::string("# "));
        VH_CHECK(prompts == 1, "prompt/session-begin-count", "onBegin produced %zu prompt sends", prompts);
        rec.sends.clear();
        m.reset_session();
        ++sessions;
        desc += echo ? " [new session echo] " : " [new session] ";
        vh::counter(echo ? "sessions_echo" : "sessions_noecho");
    }

    void clear_pending() {
        buf.clear(); items.clear(); lines.clear();
        enters = 0; need_errors = 0;
        wild = bang_pinned = exit_must = exit_may = need_sync = must_flush = false;
        sync_before.clear(); sync_line.clear();
    }

    //! apply one key to the reference and append its bytes to the pending string
    void press(const Key &k) {
        if (aborted) return;
        if (must_flush) flush();
        if (aborted) return;
        buf += k.bytes;
        sig.add(k.bytes);
        bool mid = m.cur < m.line.size();
        switch (k.kind) {
            case K_CHAR:
                if (mid) { vh::counter("key_insert_mid_line"); ++mid_edits; } else vh::counter("key_append");
                m.ch(k.ch);
                break;
            case K_BS:
                if (m.backspace()) { if (mid) { vh::counter("key_backspace_mid_line"); ++mid_edits; } else vh::counter("key_backspace_at_end"); }
                else vh::counter("key_backspace_at_col0");
                break;
            case K_DEL:
                if (m.del()) { vh::counter("key_delete_mid_line"); ++mid_edits; } else vh::counter("key_delete_at_end");
                break;
            case K_LEFT: vh::counter(m.left() ? "key_left" : "key_left_at_col0"); break;
            case K_RIGHT: vh::counter(m.right() ? "key_right" : "key_right_at_end"); break;
            case K_HOME: m.home(); vh::counter("key_home"); break;
            case K_END: m.end(); vh::counter("key_end"); break;
            case K_UP:
                if (m.up()) { vh::counter("key_up_recall"); recalled_since_enter = true; } else vh::counter("key_up_at_oldest");
                break;
            case K_DOWN:
                if (m.down()) { vh::counter(m.hidx == 0 ? "key_down_to_empty" : "key_down_recall"); recalled_since_enter = true; }
                else vh::counter("key_down_not_browsing");
                break;
            case K_NOOP: vh::counter(std::string("key_noop_") + k.name); break;
            case K_ENTER: on_enter(k); break;
        }
        if (k.last_only) must_flush = true;
    }

    void type(const std::string &text) { for (char c : text) press(key_char(c)); }

    void on_enter(const Key &k) {
        vh::counter(k.name);
        vh::counter("lines_executed");
        std::vector<std::string> before = m.hist;
        std::string line = m.enter();
        lines.push_back(line);
        ++enters;
        if (recalled_since_enter) { ++recalls_executed; vh::counter("lines_executed_after_recall"); }
        recalled_since_enter = false;
        c13::LineInfo li = c13::Classify(line, sh.probes);
        if (li.segs.size() > 1) vh::counter("lines_multi_segment");
        if (li.tokens_unpinned) { wild = true; vh::counter("lines_token_shape_unpinned"); }
        bool open_history = true;
        if (li.sole_bang) {
            c13::RefResult rr = c13::ResolveRef(li.segs[0].args[0], m.hist.size());
            bang_pinned = true;
            if (rr.cls == c13::REF_ENTRY) {
                const std::string &e = m.hist[rr.index];
                c13::LineInfo le = c13::Classify(e, sh.probes);
                if (le.has_bang || le.tokens_unpinned) wild = true;
                for (auto &it : le.items) items.push_back(it);
                if (le.exit_must) exit_must = true;
                if (le.exit_may) exit_may = true;
                ++refs_checked;
                vh::counter(std::string("histref_entry_") + rr.tag);
                if (m.hist.size() == c13::kHistoryMax) vh::counter("histref_entry_with_full_history");
            } else if (rr.cls == c13::REF_ERROR) {
                ++need_errors;
                ++refs_checked;
                vh::counter("histref_error_expected");
                if (m.hist.empty()) vh::counter("histref_error_with_empty_history");
                vh::counter(std::string("histref_error_") + rr.tag);
                if (li.segs[0].args[0].size() > 11) vh::counter("histref_error_number_beyond_int");
            } else {
                wild = true;
                vh::counter("histref_open_form");
            }
        } else if (li.has_bang) {
            wild = true;
            exit_may = true;        // a re-run entry may be an exit
            vh::counter("lines_bang_inside_multi_segment");
        } else {
            for (auto &it : li.items) items.push_back(it);
            if (li.exit_must) exit_must = true;
            if (li.exit_may) exit_may = true;
            if (li.plain_success) {
                open_history = false;
                if (m.hist.size() == c13::kHistoryMax) vh::counter("history_eviction_at_cap");
                m.hist = c13::capped_push(m.hist, line);
                vh::counter("history_store_pinned");
            } else if (li.sole_history) {
                open_history = false;
                vh::counter("history_cmd_not_stored_pinned");
            }
        }
        if (open_history) {
            need_sync = true;
            sync_before = before;
            sync_line = line;
            must_flush = true;
            vh::counter("history_storage_open");
        }
        if (exit_must || exit_may) must_flush = must_flush || rng.chance(3, 4);
    }

    std::string pending_desc() const {
        std::string s;
        for (size_t i = 0; i < lines.size(); ++i) s += (i ? " | '" : "'") + lines[i] + "'";
        return s;
    }

    //! deliver the pending string and check everything that can be checked now
    void flush() {
        must_flush = false;
        if (aborted || buf.empty()) { clear_pending(); return; }
        SessRec &rec = sh.conn.recs[st];
        rec.sends.clear();
        sh.calls.clear();
        desc += "\"" + esc(buf) + "\" ";
        vh::st().case_desc = desc;
        vh::counter("deliveries");
        if (enters > 1) vh::counter("deliveries_with_several_enters");
        bool ok = false;
        sh.conn.delivery_sends = 0;
        try {
            ok = sh.term->onRecvString(st, buf);
        } catch (const RunawayOutput &) {
            vh::viol("hang/runaway-output-in-one-delivery", vh::fmt("more than %llu sends while handling one delivered string; reference line(s): %s",
                                                                    (unsigned long long)kMaxSendsPerDelivery, pending_desc().c_str()));
            aborted = true;
            clear_pending();
            return;
        } catch (...) {
            std::string n = current_exception_name();
            vh::viol("uncaught-exception/" + n + "@onRecvString",
                     vh::fmt("what='%s' reference line(s): %s", current_exception_what().c_str(), pending_desc().c_str()));
            aborted = true;
            clear_pending();
            return;
        }
        VH_CHECK(ok, "editor/onRecvString/false-for-live-session", "lines: %s", pending_desc().c_str());

        size_t prompts = std::count(rec.sends.begin(), rec.sends.end(), std::string("# "));
        if ((int)prompts != enters)
            vh::viol("prompt/count-per-enter", vh::fmt("%d Enter key(s) delivered, %zu prompt sends; lines: %s", enters, prompts, pending_desc().c_str()));
        if (enters) vh::counter("prompt_checks");

        if (!wild) {
            if (!c13::MatchCalls(items, sh.calls)) {
                std::string exp, act;
                for (auto &it : items) exp += (it.must ? " MUST" : " may") + c13::show_args(it.args);
                for (auto &a : sh.calls) act += " " + c13::show_args(a);
                vh::viol(bang_pinned ? "history-ref/rerun/probe-calls-differ" : "editor/executed-line/probe-calls-differ",
                         vh::fmt("reference line(s): %s; expected probe calls:%s; observed:%s", pending_desc().c_str(), exp.c_str(), act.c_str()));
            }
            for (auto &it : items) if (it.must) { ++must_items_checked; vh::counter("probe_calls_required_and_checked"); }
        } else {
            vh::counter("deliveries_probe_match_skipped");
        }
        if (need_errors) {
            int errs = 0;
            for (auto &s : rec.sends) if (s.compare(0, 5, "Error") == 0) ++errs;
            if (errs < need_errors)
                vh::viol("history-ref/error/not-reported", vh::fmt("%d reference(s) to entries that do not exist, %d error message(s); lines: %s",
                                                                 need_errors, errs, pending_desc().c_str()));
        }

        bool maybe_ended = exit_must || exit_may || wild;
        bool do_sync = need_sync;
        std::vector<std::string> before = sync_before;
        std::string sline = sync_line;
        bool emust = exit_must;
        std::string pd = pending_desc();
        clear_pending();

        if (maybe_ended) {
            sh.pump(2);
            bool ended = rec.end_calls > 0;
            if (emust && !ended) vh::viol("exit/session-not-ended", "exit/quit executed but Connection::endSession was not called after two loop passes; lines: " + pd);
            if (ended) {
                vh::counter("sessions_ended_by_exit");
                bool r = true;
                sh.conn.delivery_sends = 0;
                try { r = sh.term->onRecvString(st, "x"); } catch (...) { vh::viol("uncaught-exception/" + current_exception_name() + "@onRecvString", "after exit"); aborted = true; return; }
                VH_CHECK(!r, "exit/session-still-alive-after-endSession", "onRecvString returned true for an ended session");
                rec.dead = true;
                new_session();
                return;
            }
        }
        if (do_sync) sync(&before, &sline);
    }

    //! ask the shell for its history listing; `before`/`line` describe an Enter whose storage is open
    void sync(const std::vector<std::string> *before, const std::string *line) {
        if (aborted) return;
        SessRec &rec = sh.conn.recs[st];
        rec.sends.clear();
        sh.calls.clear();
        desc += "\"history\\n\" ";
        vh::st().case_desc = desc;
        bool ok = false;
        sh.conn.delivery_sends = 0;
        try { ok = sh.term->onRecvString(st, "history\n"); }
        catch (const RunawayOutput &) { vh::viol("hang/runaway-output-in-one-delivery", "history command"); aborted = true; return; }
        catch (...) { vh::viol("uncaught-exception/" + current_exception_name() + "@onRecvString", "history command"); aborted = true; return; }
        VH_CHECK(ok, "editor/onRecvString/false-for-live-session", "history command");
        vh::counter("history_listings_checked");
        size_t prompts = std::count(rec.sends.begin(), rec.sends.end(), std::string("# "));
        VH_CHECK(prompts == 1, "prompt/count-per-enter", "history command: %zu prompt sends", prompts);
        if (rec.sends.size() < 2 || rec.sends.back() != "# ") {
            vh::viol("history/listing/not-found", "no listing send before the prompt");
            return;
        }
        const std::string &lst = rec.sends[rec.sends.size() - 2];
        std::vector<std::string> got;
        bool wellformed = true;
        size_t p = 0;
        while (p < lst.size()) {
            size_t e = lst.find("\r\n", p);
            if (e == std::string::npos) { wellformed = false; break; }
            std::string row = lst.substr(p, e - p);
            p = e + 2;
            // "%2d  <line>"
            size_t q = 0;
            while (q < row.size() && row[q] == ' ') ++q;
            size_t d0 = q;
            while (q < row.size() && row[q] >= '0' && row[q] <= '9') ++q;
            if (q == d0 || row.compare(q, 2, "  ") != 0 || (size_t)atol(row.substr(d0, q - d0).c_str()) != got.size()) { wellformed = false; break; }
            got.push_back(row.substr(q + 2));
        }
        if (!wellformed) {
            vh::viol("history/listing/malformed", "listing: " + esc(lst));
            return;
        }
        if (got.size() > c13::kHistoryMax)
            vh::viol("history/more-than-20-entries", vh::fmt("%zu entries listed", got.size()));
        for (auto &g : got) {
            c13::LineInfo gi = c13::Classify(g, sh.probes);
            if (gi.sole_history) vh::viol("history/contains-history-command", "entry '" + g + "'");
        }
        bool fine = false;
        if (before) {
            if (got == *before) { fine = true; vh::counter("history_open_line_not_stored"); }
            else {
                std::vector<std::string> cands = *before;
                cands.push_back(*line);
                for (auto &x : cands) if (got == c13::capped_push(*before, x)) { fine = true; break; }
                if (fine) vh::counter("history_open_line_stored");
            }
            if (!fine) {
                std::string a, b;
                for (auto &x : *before) a += " '" + x + "'";
                for (auto &x : got) b += " '" + x + "'";
                vh::viol("history/listing/inconsistent-after-line",
                         vh::fmt("line '%s'; history before:%s; listing after:%s (expected unchanged, or one of the line / an earlier entry appended with the oldest dropped beyond 20)",
                                 line->c_str(), a.c_str(), b.c_str()));
            }
        } else {
            fine = got == m.hist;
            if (!fine) {
                std::string a, b;
                for (auto &x : m.hist) a += " '" + x + "'";
                for (auto &x : got) b += " '" + x + "'";
                vh::viol("history/listing/differs-from-reference", vh::fmt("reference:%s; listing:%s", a.c_str(), b.c_str()));
            } else {
                vh::counter("history_listing_equals_reference");
                if (got.size() == c13::kHistoryMax) vh::counter("history_listing_full_20");
            }
        }
        m.hist = got;   // follow the shell (open cases) / resynchronise after a reported difference
    }

    void finish() {
        if (aborted) return;
        flush();
        if (aborted) return;
        if (!m.line.empty() || m.hidx != 0) {       // the listing is asked for on an empty edit line
            press(key_enter(1));
            flush();
            if (aborted) return;
        }
        sync(nullptr, nullptr);
        sh.pump(2);
        VH_CHECK(sh.conn.recs[st].end_calls == 0, "exit/unexpected-endSession", "session ended without an exit command");
    }
};

//! ------------------------------------------------------------------------------------------ editor mode
const char *kProbePaths[] = {"/p", "/q", "/d/r", "/d/e/s"};

char rand_printable(vh::Rng &r, bool mostly_alnum) {
    static const char alnum[] = "abcdefghijklmnopqrstuvwxyz0123456789";
    if (mostly_alnum && !r.chance(1, 5)) return alnum[r.below(sizeof(alnum) - 1)];
    char c;
    do { c = (char)r.range(0x20, 0x7e); } while (c == '#');
    return c;
}

std::string make_template(vh::Rng &r, const c13::RefEditor &m, unsigned &serial) {
    unsigned w = (unsigned)r.below(100);
    std::string n = std::to_string(++serial);
    std::string pp = r.pick(kProbePaths);
    if (w < 34) {
        static const char *extra[] = {"", "", " w", " \"a b\"", " 'x y'", " --k=\"v w\"z", "  ", " ", " \"\"", " '\"'", " a=b c"};
        std::string e = r.pick(extra);
        if (e == " w") e += n;
        return pp + " " + n + e;
    }
    if (w < 42) { static const char *rel[] = {"p ", "q ", "d/r ", "./p ", "d/e/s ", "/d/../p ", "r "}; return std::string(r.pick(rel)) + n; }
    if (w < 50) {
        static const char *bi[] = {"ls", "ls /d", "ls d", "pwd", "cd d", "cd /d/e", "cd ..", "cd /", "cd", "tree", "tree /d", "help",
                                   "help /p", "help nosuch", "ls nosuch", "cd /p", "tree /p", "d", "/d/e"};
        return r.pick(bi);
    }
    if (w < 55) return "history";
    if (w < 69) {
        size_t hs = m.hist.size();
        unsigned k = (unsigned)r.below(24);
        if (k < 5) return "!!";
        if (k < 11) return "!" + std::to_string(r.below(hs + 3));
        if (k < 17) return "!-" + std::to_string(1 + r.below(hs + 2));
        static const char *odd[] = {"!2147483647", "!-2147483647", "!2147483648", "!-2147483648", "!-2147483649", "!1000000000000",
                                    "!-1000000000000", "!99999999999999999999", "!", "!abc", "!-", "!-x", "!1x", "!+1", "!007", "!-0", "! 1"};
        return r.pick(odd);
    }
    if (w < 76) {
        std::string n2 = std::to_string(++serial);
        std::string p2 = r.pick(kProbePaths);
        switch (r.below(9)) {
            case 0: return pp + " " + n + ";" + p2 + " " + n2;
            case 1: return pp + " " + n + "; " + p2 + " " + n2 + " ;" + pp;
            case 2: return pp + " " + n + ";;" + p2 + " " + n2;
            case 3: return ";" + pp + " " + n;
            case 4: return pp + " " + n + ";";
            case 5: return "history;" + pp + " " + n;
            case 6: return pp + " " + n + ";history";
            case 7: return "nosuch;" + pp + " " + n;
            default: return "pwd;" + pp + " " + n + ";ls";
        }
    }
    if (w < 80) return r.chance(1, 2) ? "nosuch " + n : "xyz";
    if (w < 83) return r.chance(1, 2) ? pp + " \"abc " + n : pp + " ab'c";
    if (w < 85) return pp + " \"a\"b" + n;
    if (w < 87) return r.chance(1, 2) ? "exit" : "quit";
    if (w < 89) { static const char *ex[] = {"/p 1;exit", "exit;exit", "exit;/p 2", "quit now", ";exit"}; return r.pick(ex); }
    if (w < 92) { static const char *bg[] = {"/p 5;!0", "!0;/p 6", "!!;!!", "!-1;/q 7"}; return r.pick(bg); }
    if (w < 97) { std::string s; size_t k = 1 + r.below(12); for (size_t i = 0; i < k; ++i) s += rand_printable(r, false); return s; }
    if (w < 99) return std::string(1 + r.below(4), ' ');
    std::string s = pp;
    size_t k = 40 + r.below(120);
    for (size_t i = 0; i < k; ++i) s += " a" + std::to_string(i);
    return s;
}

Key random_edit_key(vh::Rng &r) {
    unsigned w = (unsigned)r.below(100);
    if (w < 20) return key_left();
    if (w < 30) return key_right();
    if (w < 36) return key_home();
    if (w < 42) return key_end();
    if (w < 57) return key_bs(r.chance(1, 2));
    if (w < 65) return key_del();
    if (w < 75) return key_up();
    if (w < 81) return key_down();
    if (w < 88) return key_noop(r);
    return key_char(rand_printable(r, true));
}

Key random_enter(vh::Rng &r) {
    unsigned w = (unsigned)r.below(100);
    return key_enter(w < 40 ? 0 : w < 70 ? 1 : w < 85 ? 2 : 3);
}

void note_editor_case(Driver &d) {
    bool nontrivial = d.mid_edits >= 1 && d.must_items_checked >= 1 && (d.recalls_executed >= 1 || d.refs_checked >= 1);
    vh::note_case(d.sig.h, nontrivial);
}

void case_editor(uint64_t, vh::Rng &rng) {
    Shell sh;
    sh.build_fixed_tree();
    sh.probe_reply = rng.chance(1, 2);
    Driver d(sh, rng);
    d.new_session();
    static const unsigned flush_den[] = {1, 2, 5, 20};
    unsigned fden = rng.pick(flush_den);
    static const unsigned edit_pct[] = {0, 3, 10, 25};
    unsigned epct = rng.pick(edit_pct);
    unsigned serial = (unsigned)rng.below(900);
    int nkeys = (int)rng.range(40, 220);
    std::string plan;
    size_t pi = 0;
    for (int k = 0; k < nkeys && !d.aborted; ++k) {
        if (pi < plan.size()) {
            if (rng.below(100) < epct) d.press(random_edit_key(rng));
            else d.press(key_char(plan[pi++]));
            if (pi >= plan.size()) {
                plan.clear(); pi = 0;
                if (rng.chance(7, 10)) {
                    if (rng.below(100) < epct) d.press(rng.chance(1, 2) ? key_end() : key_home());
                    d.press(random_enter(rng));
                }
            }
        } else {
            unsigned w = (unsigned)rng.below(100);
            if (w < 50) { plan = make_template(rng, d.m, serial); pi = 0; }
            else if (w < 62) d.press(random_enter(rng));
            else if (w < 74) {      // recall an older line and run it, possibly after touching it
                size_t ups = 1 + rng.below(4);
                for (size_t i = 0; i < ups; ++i) d.press(key_up());
                if (rng.chance(1, 3)) d.press(key_down());
                if (rng.chance(1, 3)) { d.press(key_left()); d.press(key_char(rand_printable(rng, true))); }
                if (rng.chance(1, 4)) d.press(key_bs(true));
                d.press(random_enter(rng));
            }
            else d.press(random_edit_key(rng));
        }
        if (!d.buf.empty() && rng.below(fden) == 0) d.flush();
    }
    d.finish();
    vh::counter("probe_invocations_total", sh.probe_total);
    note_editor_case(d);
    if (vh::st().args.first == 0 && vh::want_sample(2) && d.must_items_checked >= 2 && d.mid_edits >= 2 && d.refs_checked >= 1) {
        vh::sample("{\"mode\":\"editor\",\"script\":" + vh::jstr(d.desc.substr(0, 1500)) + ",\"final_history\":" + vh::jstr(c13::show_args(d.m.hist).substr(0, 600)) + "}", 2);
    }
}

//! ------------------------------------------------------------------------------------------ histref mode (enumerated)
const size_t kFill[] = {0, 1, 2, 7, 19, 20, 23};
const size_t kNumFill = sizeof(kFill) / sizeof(kFill[0]);

std::vector<std::string> ref_forms(size_t hs) {
    std::vector<std::string> v;
    auto S = [](long long x) { return std::to_string(x); };
    v.push_back("!!");
    v.push_back("!0");
    v.push_back("!1");
    v.push_back("!-1");
    v.push_back("!" + S((long long)hs - 1 < 0 ? 0 : (long long)hs - 1));
    v.push_back("!" + S((long long)hs));
    v.push_back("!" + S((long long)hs + 1));
    v.push_back("!-" + S((long long)hs == 0 ? 1 : (long long)hs));
    v.push_back("!-" + S((long long)hs + 1));
    v.push_back("!-" + S((long long)hs - 1 < 1 ? 1 : (long long)hs - 1));
    v.push_back("!2147483647");
    v.push_back("!-2147483647");
    v.push_back("!2147483648");
    v.push_back("!-2147483648");
    v.push_back("!-2147483649");
    v.push_back("!4294967296");
    v.push_back("!-4294967295");
    v.push_back("!1000000000000");
    v.push_back("!-1000000000000");
    v.push_back("!18446744073709551616");
    v.push_back("!99999999999999999999999999");
    v.push_back("!");
    v.push_back("!abc");
    v.push_back("!-");
    v.push_back("!-x");
    v.push_back("!1x");
    v.push_back("!+1");
    v.push_back("!007");
    v.push_back("!-0");
    v.push_back("'! 1'");
    return v;
}
const size_t kNumRefForms = 30;

void case_histref(uint64_t idx, vh::Rng &rng) {
    size_t form = idx % kNumRefForms;
    size_t fill = kFill[(idx / kNumRefForms) % kNumFill];
    unsigned variant = (unsigned)((idx / (kNumRefForms * kNumFill)) % 4);     // bit0: leading blanks, bit1: follow-up kind
    Shell sh;
    sh.build_fixed_tree();
    sh.probe_reply = (idx & 1) != 0;
    Driver d(sh, rng);
    d.new_session();
    unsigned base = 100 + (unsigned)(idx % 50);
    for (size_t k = 0; k < fill && !d.aborted; ++k) {
        d.type(std::string(kProbePaths[k % 4]) + " " + std::to_string(base + k));
        d.press(key_enter(1));
        if (k % 5 == 4) d.flush();
    }
    d.flush();
    if (!d.aborted) d.sync(nullptr, nullptr);
    size_t hs = d.m.hist.size();
    VH_CHECK(hs == std::min(fill, c13::kHistoryMax), "history/fill-size", "entered %zu plain lines, history lists %zu", fill, hs);
    std::vector<std::string> forms = ref_forms(hs);
    std::string ref = forms[form];
    if (variant & 1) ref = "  " + ref + " ";
    d.type(ref);
    d.press(key_enter((int)(idx % 3)));
    d.flush();
    // follow-up: the shell is still usable and its history still addresses what the listing shows
    if (!d.aborted) {
        if (variant & 2) { d.press(key_up()); d.press(key_enter(0)); }
        else { d.type("!!"); d.press(key_enter(1)); }
        d.flush();
        d.type("/q 999"); d.press(key_enter(3));
        d.flush();
    }
    d.finish();
    vh::counter("histref_cases");
    d.sig.add(idx);
    vh::note_case(d.sig.h, true);
    if (vh::st().args.first == 0 && vh::want_sample(1) && fill == 7 && form == 4)
        vh::sample("{\"mode\":\"histref\",\"fill\":7,\"script\":" + vh::jstr(d.desc.substr(0, 1200)) + "}", 1);
}

//! ------------------------------------------------------------------------------------------ hostile mode
struct HostileWorld {
    Shell sh;
    vh::Rng &rng;
    std::vector<NodeToken> dirs, funcs;         //!< live (not deleted) nodes created by the harness, root excluded
    std::vector<NodeToken> deleted;
    std::vector<std::pair<NodeToken, std::string>> mounts;   //!< (parent, name) of successful mounts
    std::vector<std::string> names;
    struct Sess { SessionToken st; bool exit_possible = false; bool dead = false; bool quiet = false; };
    std::vector<Sess> sess;
    std::string desc;
    vh::Sig sig;
    bool aborted = false;

    explicit HostileWorld(vh::Rng &r) : rng(r) {
        static const char *pool[] = {"a", "b", "c", "d", "x", "p", "f", "..", ".", "a b", "tree", "ls", "cd", "exit", "history", "a/b", "-", "'q'", "\"", ";", "z;z"};
        for (auto n : pool) names.push_back(n);
        names.push_back(std::string(200, 'L'));
    }

    void log(const std::string &s) { desc += s; desc += ' '; sig.add(s); if (desc.size() < 5800) vh::st().case_desc = desc; }

    NodeToken any_dir() { return (dirs.empty() || rng.chance(1, 3)) ? sh.term->rootNode() : rng.pick(dirs); }
    NodeToken any_node() {
        unsigned k = (unsigned)rng.below(10);
        if (k < 4 && !funcs.empty()) return rng.pick(funcs);
        if (k < 8 && !dirs.empty()) return rng.pick(dirs);
        if (k == 8 && !deleted.empty()) return rng.pick(deleted);
        return sh.term->rootNode();
    }
    std::string any_path() {
        std::string p = rng.chance(1, 3) ? "/" : "";
        size_t k = rng.below(5);
        for (size_t i = 0; i < k; ++i) {
            unsigned w = (unsigned)rng.below(10);
            p += w < 6 ? rng.pick(names) : w < 8 ? std::string("..") : w == 8 ? std::string(".") : std::string("");
            if (i + 1 < k || rng.chance(1, 5)) p += "/";
        }
        return p;
    }

    void mutate_tree() {
        unsigned w = (unsigned)rng.below(10);
        if (w < 2 && dirs.size() < 6) { dirs.push_back(sh.term->createDirNode("dir")); log("mkdir"); }
        else if (w < 4 && funcs.size() < 6) { funcs.push_back(sh.term->createFuncNode(sh.probe_func(), "func help")); log("mkfunc"); }
        else if (w < 8) {
            NodeToken parent = rng.chance(1, 8) ? any_node() : any_dir();
            NodeToken child = any_node();
            std::string name = rng.chance(1, 12) ? (rng.chance(1, 2) ? std::string("") : std::string("!bang")) : rng.pick(names);
            bool ok = sh.term->mountNode(parent, child, name);
            if (ok) { mounts.push_back(std::make_pair(parent, name)); vh::counter("tree_mounts"); if (child == parent || child == sh.term->rootNode()) vh::counter("tree_cyclic_mounts_direct"); }
            else vh::counter("tree_mounts_refused");
            log("mount(" + esc(name.substr(0, 12)) + (ok ? ")" : ")=refused"));
        } else if (w == 8) {
            if (!mounts.empty()) {
                size_t i = rng.below(mounts.size());
                sh.term->umountNode(mounts[i].first, mounts[i].second);
                vh::counter("tree_umounts");
                log("umount(" + esc(mounts[i].second.substr(0, 12)) + ")");
            }
        } else {
            bool dir = rng.chance(1, 2);
            std::vector<NodeToken> &v = dir ? dirs : funcs;
            if (!v.empty()) {
                size_t i = rng.below(v.size());
                sh.term->deleteNode(v[i]);
                deleted.push_back(v[i]);
                v.erase(v.begin() + i);
                vh::counter("tree_nodes_deleted_while_mounted");
                log(dir ? "rmdir" : "rmfunc");
            }
        }
    }

    void new_session() {
        Sess s;
        s.st = sh.term->newSession(&sh.conn);
        sh.conn.recs[s.st] = SessRec();
        uint32_t opt = (uint32_t)rng.below(4);
        s.quiet = (opt & TerminalInteract::kQuietMode) != 0;
        sh.term->setOptions(s.st, opt);
        sh.term->onBegin(s.st);
        sess.push_back(s);
        log("newsession(opt=" + std::to_string(opt) + ")");
        vh::counter("hostile_sessions");
    }

    std::string hostile_line() {
        unsigned w = (unsigned)rng.below(22);
        switch (w) {
            case 0: return "tree";
            case 1: return "tree " + any_path();
            case 2: return "ls " + any_path();
            case 3: return "cd " + any_path();
            case 4: return "help " + any_path();
            case 5: return "pwd";
            case 6: return any_path();
            case 7: return any_path() + " arg1 'arg 2'";
            case 8: return "history";
            case 9: { static const char *h[] = {"!0", "!1", "!-1", "!5", "!-3", "!19", "!20", "!x", "!"}; return rng.pick(h); }
            case 10: return rng.chance(1, 2) ? "exit" : "quit";
            case 11: return "exit;exit;quit";
            case 12: return std::string(rng.below(40), ';');
            case 13: { std::string s; size_t k = rng.below(30); for (size_t i = 0; i < k; ++i) s += rng.chance(1, 3) ? '"' : (rng.chance(1, 2) ? '\'' : ' '); return s + "x"; }
            case 14: { std::string s = "ls"; size_t k = 200 + rng.below(3000); for (size_t i = 0; i < k; ++i) s += (char)rng.range(0x20, 0x7e); return s; }
            case 15: return "cd ..;cd ..;cd ..;pwd;ls;tree";
            case 16: return "cd " + rng.pick(names) + ";tree;ls;pwd";
            case 17: return "help";
            case 18: return "ls;ls .;ls ..;ls /;ls //;ls /./..";
            case 19: return rng.pick(names) + "/" + rng.pick(names) + " 1 2 3";
            case 20: return "tree /;tree .;tree ..";
            default: return "cd /;" + any_path();
        }
    }

    std::string hostile_segment() {
        unsigned w = (unsigned)rng.below(100);
        if (w < 45) {
            std::string s;
            size_t k = 1 + rng.below(3);
            for (size_t i = 0; i < k; ++i) {
                s += hostile_line();
                unsigned e = (unsigned)rng.below(4);
                if (e == 0) s += "\r\n"; else if (e == 1) s += "\n"; else if (e == 2) s += "\r"; else s += std::string("\r\0", 2);
            }
            return s;
        }
        if (w < 60) return rng.bytes(rng.below(64));
        if (w < 85) {
            static const char *dict[] = {"\x1b", "\x1b[", "\x1b[1", "\x1b[2", "\x1b[3", "\x1b[4", "\x1bO", "\xc2", "\r", "\n", "\x7f", "\x08", "\t", "\xff",
                                         "\x1b[A", "\x1b[B", "\x1b[C", "\x1b[D", "\x1b[1~", "\x1b[4~", "\x1b[3~", "\x1b[15", "\x1b[24~", "~", "a", "/", ";", "!", "!!", "\"", " "};
            std::string s;
            size_t k = 1 + rng.below(24);
            for (size_t i = 0; i < k; ++i) {
                if (rng.chance(1, 10)) s += std::string(1, '\0'); else s += rng.pick(dict);
            }
            return s;
        }
        if (w < 93) {       // arrows over history with edits, encodings possibly cut at the end
            std::string s;
            size_t k = 1 + rng.below(30);
            for (size_t i = 0; i < k; ++i) s += random_edit_key(rng).bytes;
            if (rng.chance(1, 2)) s.resize(s.size() - std::min<size_t>(s.size(), rng.below(3)));
            if (rng.chance(1, 2)) s += "\n";
            return s;
        }
        return std::string("exit\r\nexit\r\n");
    }

    bool feed(Sess &s, const std::string &seg) {
        log("s" + std::to_string(&s - &sess[0]) + "<\"" + esc(seg.substr(0, 80)) + (seg.size() > 80 ? "...\"" : "\""));
        vh::counter("hostile_segments");
        vh::counter("hostile_bytes", seg.size());
        if (seg.find("exit") != std::string::npos || seg.find("quit") != std::string::npos || seg.find('!') != std::string::npos ||
            seg.find('\x1b') != std::string::npos) s.exit_possible = true;
        if (count_sub(seg, "exit") + count_sub(seg, "quit") >= 2) vh::counter("hostile_segments_with_repeated_exit");
        size_t before = sh.conn.recs[s.st].sends.size();
        bool r = false;
        sh.conn.delivery_sends = 0;
        try { r = sh.term->onRecvString(s.st, seg); }
        catch (const RunawayOutput &) {
            vh::viol("hang/runaway-output-in-one-delivery", vh::fmt("more than %llu sends while handling segment \"%s\"", (unsigned long long)kMaxSendsPerDelivery, esc(seg.substr(0, 200)).c_str()));
            aborted = true;
            return false;
        }
        catch (...) {
            vh::viol("uncaught-exception/" + current_exception_name() + "@onRecvString", vh::fmt("what='%s' segment=\"%s\"", current_exception_what().c_str(), esc(seg.substr(0, 200)).c_str()));
            aborted = true;
            return false;
        }
        if (s.dead) { vh::counter("hostile_calls_on_dead_session"); VH_CHECK(!r, "hostile/onRecvString/true-for-dead-session", "segment accepted by a deleted session"); }
        else VH_CHECK(r, "hostile/onRecvString/false-for-live-session", "segment refused");
        SessRec &rec = sh.conn.recs[s.st];
        for (size_t i = before; i < rec.sends.size(); ++i) {
            const std::string &o = rec.sends[i];
            if (o.find("(R)") != std::string::npos) vh::counter("tree_cycle_marker_seen");
            if (o.find("(X)") != std::string::npos) vh::counter("tree_deleted_marker_seen");
            if (o.find("has been deleted") != std::string::npos) vh::counter("deleted_node_message_seen");
            if (o.find("|-- ") != std::string::npos || o.find("`-- ") != std::string::npos) vh::counter("tree_listings_seen");
        }
        if (rec.sends.size() > 4000) rec.sends.clear();
        return true;
    }

    void pump() {
        try { sh.pump(1 + (int)rng.below(2)); }
        catch (...) { vh::viol("uncaught-exception/" + current_exception_name() + "@runLoop", current_exception_what()); aborted = true; return; }
        for (auto &s : sess) {
            if (!s.dead && sh.conn.recs[s.st].end_calls > 0) {
                s.dead = true;
                sh.conn.recs[s.st].dead = true;
                vh::counter("hostile_sessions_ended_by_exit");
            }
            s.exit_possible = false;
        }
        log("pump");
    }

    void run() {
        NodeToken sentinel = sh.term->createFuncNode(sh.probe_func(), "sentinel");
        sh.term->mountNode(sh.term->rootNode(), sentinel, "zz_probe");
        size_t pre = 3 + rng.below(14);
        for (size_t i = 0; i < pre; ++i) mutate_tree();
        new_session();
        size_t steps = 15 + rng.below(50);
        for (size_t i = 0; i < steps && !aborted; ++i) {
            unsigned w = (unsigned)rng.below(100);
            if (w < 66) {
                Sess &s = sess[rng.below(sess.size())];
                feed(s, hostile_segment());
            } else if (w < 76) mutate_tree();
            else if (w < 86) pump();
            else if (w < 90) { if (sess.size() < 4) new_session(); }
            else if (w < 94) {
                Sess &s = sess[rng.below(sess.size())];
                bool r = sh.term->onRecvWindowSize(s.st, (uint16_t)rng.next(), (uint16_t)rng.next());
                VH_CHECK(r == !s.dead, "hostile/onRecvWindowSize/wrong-liveness-answer", "returned %d for a %s session", (int)r, s.dead ? "dead" : "live");
            } else {
                // client disconnect as the TCP front ends do it: deleteSession from the transport, but only when no exit is pending
                Sess &s = sess[rng.below(sess.size())];
                if (!s.dead && !s.exit_possible) {
                    bool r = sh.term->deleteSession(s.st);
                    VH_CHECK(r, "hostile/deleteSession/false-for-live-session", "deleteSession refused");
                    s.dead = true;
                    sh.conn.recs[s.st].dead = true;
                    log("disconnect");
                    vh::counter("hostile_sessions_disconnected");
                }
            }
        }
        if (aborted) return;
        pump(); if (aborted) return;
        pump(); if (aborted) return;
        VH_CHECK(sh.conn.sends_to_dead == 0, "hostile/send-after-session-end", "%llu sends addressed to sessions already torn down", (unsigned long long)sh.conn.sends_to_dead);
        // liveness: a fresh session on the same Terminal still executes a command exactly
        Sess s;
        s.st = sh.term->newSession(&sh.conn);
        sh.conn.recs[s.st] = SessRec();
        sh.term->onBegin(s.st);
        sh.calls.clear();
        sess.push_back(s);
        feed(sess.back(), "/zz_probe 42 'x y'\n");
        if (aborted) return;
        Args want; want.push_back("/zz_probe"); want.push_back("42"); want.push_back("x y");
        if (sh.calls.size() != 1 || sh.calls[0] != want)
            vh::viol("hostile/liveness/probe-not-executed-after-traffic", vh::fmt("%zu probe calls, first=%s", sh.calls.size(), sh.calls.empty() ? "-" : c13::show_args(sh.calls[0]).c_str()));
        else vh::counter("hostile_liveness_probe_ok");
        pump();
    }
};

void case_hostile(uint64_t, vh::Rng &rng) {
    HostileWorld w(rng);
    w.run();
    vh::counter("sends_recorded", w.sh.conn.total_sends);
    vh::note_case(w.sig.h, w.sh.conn.total_sends > 10);
    if (vh::st().args.first == 0 && vh::want_sample(1) && !w.aborted && w.desc.size() > 400)
        vh::sample("{\"mode\":\"hostile\",\"script\":" + vh::jstr(w.desc.substr(0, 1200)) + "}", 1);
}


//! ------------------------------------------------------------------------------------------ in-loop driver
//! Runs the loop in Mode::kForever on a helper thread and lets the scenario act once per loop iteration, from a task
//! that is always the first of the iteration's run-next phase. Control is handed back and forth (mutex + condition
//! variable, exactly one side runs at any time), so the scenario code stays sequential and everything is as
//! deterministic as with one thread - but, unlike runLoop(kOnce), leaving the iteration does not drain the deferred
//! tasks: a task queued by a task really runs one iteration later, after that iteration's descriptor events. What the
//! scenario does in tick k reaches the server in the descriptor phase of iteration k+1.
struct LoopRunner {
    Loop *loop = nullptr;
    std::mutex m;
    std::condition_variable cv;
    int turn = 0;               //!< 0: scenario runs, 1: loop thread runs
    bool started = false, finished = false, dead = false, stop = false;
    std::string ex_name, ex_what;
    std::thread th;
    uint64_t ticks = 0;

    void give(int who) { { std::lock_guard<std::mutex> g(m); turn = who; } cv.notify_all(); }
    void wait_turn(int who) { std::unique_lock<std::mutex> g(m); cv.wait(g, [&] { return turn == who; }); }

    void driver() {             // loop thread
        if (stop) { loop->exitLoop(); return; }
        loop->runNext([this] { driver(); }, "c13-driver");
        give(0);
        wait_turn(1);
    }
    void thread_main() {
        wait_turn(1);
        try { loop->runLoop(Loop::Mode::kForever); }
        catch (...) { ex_name = current_exception_name(); ex_what = current_exception_what(); dead = true; }
        finished = true;
        give(0);
    }
    void start(Loop *l) {
        loop = l;
        loop->runNext([this] { driver(); }, "c13-driver");
        started = true;
        th = std::thread([this] { thread_main(); });
        give(1);
        wait_turn(0);
    }
    //! let the loop finish this iteration and make the next one up to the driver task; false when the loop ended
    bool tick() {
        if (!started || finished) return false;
        ++ticks;
        give(1);
        wait_turn(0);
        return !finished;
    }
    //! ask the loop to leave (normal end of a case); safe to call twice
    void shutdown() {
        if (!started) return;
        if (!finished) { stop = true; give(1); wait_turn(0); }
        if (th.joinable()) th.join();
        started = false;
    }
    ~LoopRunner() { shutdown(); }
};

//! ------------------------------------------------------------------------------------------ TCP front ends
int pick_port() {
    int fd = ::socket(AF_INET, SOCK_STREAM, 0);
    if (fd < 0) return -1;
    struct sockaddr_in a;
    memset(&a, 0, sizeof a);
    a.sin_family = AF_INET;
    a.sin_addr.s_addr = htonl(INADDR_LOOPBACK);
    a.sin_port = 0;
    int port = -1;
    if (::bind(fd, (struct sockaddr *)&a, sizeof a) == 0) {
        socklen_t l = sizeof a;
        if (::getsockname(fd, (struct sockaddr *)&a, &l) == 0) port = ntohs(a.sin_port);
    }
    ::close(fd);
    return port;
}

struct Atom { std::string bytes; bool splittable; };

struct Client {
    int fd = -1;
    bool clean = true;
    std::string rx;
    bool eof = false, reset = false;
    std::vector<Atom> atoms;
    size_t next_atom = 0, atom_off = 0;
    // expectations (clean clients)
    std::vector<c13::Item> items;
    bool wild = false;
    int enters = 0, donts = 0, nops = 0;
    bool sends_exit = false;
    bool closed_by_us = false;
    size_t exact_prefix = 0;    //!< the first atoms are written one per segment, each followed by a loop pass
    std::string script;
};

struct TcpWorld {
    Shell sh;
    vh::Rng &rng;
    bool telnet;
    Telnetd *telnetd = nullptr;
    TcpRpc *rpc = nullptr;
    int port = -1;              //!< loopback TCP port, or -1 when the case runs over the unix-domain socket
    std::string unix_path;
    std::vector<Client> clients;
    bool aborted = false;
    std::string desc;
    vh::Sig sig;
    uint64_t case_idx = 0;
    LoopRunner runner;

    TcpWorld(vh::Rng &r, bool t, uint64_t idx) : rng(r), telnet(t), case_idx(idx) {}

    void log(const std::string &s) { desc += s; desc += ' '; if (desc.size() < 5800) vh::st().case_desc = desc; }

    bool start_on(const std::string &addr) {
        bool ok;
        if (telnet) { telnetd = new Telnetd(sh.loop, sh.term); ok = telnetd->initialize(addr) && telnetd->start(); if (!ok) { delete telnetd; telnetd = nullptr; } }
        else { rpc = new TcpRpc(sh.loop, sh.term); ok = rpc->initialize(addr) && rpc->start(); if (!ok) { delete rpc; rpc = nullptr; } }
        return ok;
    }

    //! Every `--tcp-every`-th case listens on a loopback TCP port, the others on a unix-domain stream socket (same
    //! TcpServer / TcpConnection / BufferedFd code path). TCP is rationed because every closed connection parks an
    //! ephemeral port in TIME_WAIT for 60 s: at full rate the port range would run dry and the harness - not the
    //! code under test - would fail.
    bool start() {
        sh.build_fixed_tree();
        sh.probe_reply = true;
        long every = vh::st().args.num("tcp-every", 3);
        if (every > 0 && case_idx % (uint64_t)every == 0) {
            for (int attempt = 0; attempt < 20; ++attempt) {
                port = pick_port();
                if (port < 0) continue;
                if (start_on("127.0.0.1:" + std::to_string(port))) { vh::counter("tcp_cases_over_loopback_tcp"); return true; }
            }
            vh::counter("tcp_loopback_unavailable_fell_back_to_unix");
        }
        port = -1;
        std::string dir = vh::st().args.out.empty() ? std::string("/var/tmp") : vh::st().args.out;
        unix_path = dir + "/c13_" + std::to_string((long)getpid()) + ".sock";
        if (unix_path.size() >= sizeof(((struct sockaddr_un *)0)->sun_path)) unix_path = "/var/tmp/c13_" + std::to_string((long)getpid()) + ".sock";
        if (start_on(unix_path)) { vh::counter("tcp_cases_over_unix_socket"); return true; }
        return false;
    }

    void pump(int n) {
        for (int i = 0; i < n && !aborted; ++i) {
            runner.tick();      // one loop iteration in Mode::kForever (deferred tasks are not drained early, see LoopRunner)
            if (runner.dead) {
                vh::viol("uncaught-exception/" + runner.ex_name + "@runLoop", vh::fmt("what='%s'; clients: %s", runner.ex_what.c_str(), desc.substr(0, 1200).c_str()));
                aborted = true;
                return;
            }
            vh::counter("tcp_loop_iterations");
            for (auto &c : clients) {
                size_t b = c.rx.size();
                drain(c);
                if (vh::st().args.verbose && c.rx.size() != b) fprintf(stderr, "  pump: c%zu got \"%s\"%s\n", (size_t)(&c - &clients[0]), esc(c.rx.substr(b)).substr(0, 200).c_str(), c.eof ? " EOF" : "");
            }
        }
    }

    void drain(Client &c) {
        if (c.fd < 0) return;
        char b[4096];
        for (;;) {
            ssize_t n = ::recv(c.fd, b, sizeof b, MSG_DONTWAIT);
            if (n > 0) {
                if (c.rx.size() < (8u << 20)) c.rx.append(b, (size_t)n);
                int one = 1;
                if (port >= 0) ::setsockopt(c.fd, IPPROTO_TCP, TCP_QUICKACK, &one, sizeof one);    // not sticky: re-arm after every read
                continue;
            }
            if (n == 0) { c.eof = true; }
            else if (errno == ECONNRESET || errno == EPIPE) { c.reset = true; c.eof = true; }
            break;
        }
    }

    int connect_client() {
        if (port < 0) {
            int ufd = ::socket(AF_UNIX, SOCK_STREAM, 0);
            if (ufd < 0) return -1;
            struct sockaddr_un u;
            memset(&u, 0, sizeof u);
            u.sun_family = AF_UNIX;
            memcpy(u.sun_path, unix_path.data(), unix_path.size());
            if (::connect(ufd, (struct sockaddr *)&u, sizeof u) != 0) { ::close(ufd); return -1; }
            return ufd;
        }
        int fd = ::socket(AF_INET, SOCK_STREAM, 0);
        if (fd < 0) return -1;
        struct sockaddr_in a;
        memset(&a, 0, sizeof a);
        a.sin_family = AF_INET;
        a.sin_addr.s_addr = htonl(INADDR_LOOPBACK);
        a.sin_port = htons((uint16_t)port);
        if (::connect(fd, (struct sockaddr *)&a, sizeof a) != 0) { ::close(fd); return -1; }
        int one = 1;
        ::setsockopt(fd, IPPROTO_TCP, TCP_NODELAY, &one, sizeof one);
        // the server side keeps Nagle on: without immediate ACKs its second small write (the prompt) would sit in the
        // kernel until the delayed-ACK timer fires, i.e. in real time the harness does not otherwise spend
        ::setsockopt(fd, IPPROTO_TCP, TCP_QUICKACK, &one, sizeof one);
        return fd;
    }

    bool write_all(Client &c, const std::string &s) {
        size_t off = 0;
        int spins = 0;
        while (off < s.size()) {
            ssize_t n = ::send(c.fd, s.data() + off, s.size() - off, MSG_NOSIGNAL | MSG_DONTWAIT);
            if (n > 0) { off += (size_t)n; continue; }
            if (n < 0 && (errno == EAGAIN || errno == EWOULDBLOCK) && ++spins < 2000) { pump(1); if (aborted) return false; continue; }
            return false;       // peer gone
        }
        return true;
    }

    //! ---- script generation
    void add(Client &c, const std::string &b, bool splittable) { Atom a; a.bytes = b; a.splittable = splittable; c.atoms.push_back(a); }

    void gen_clean(Client &c) {
        c.clean = true;
        c13::RefEditor m;
        size_t nlines = 1 + rng.below(6);
        unsigned serial = (unsigned)rng.below(5000);
        static const char alpha[] = "abcdefghijklmnopqrstuvwxyz0123456789_-.=";
        for (size_t l = 0; l < nlines; ++l) {
            // telnet commands between keys, cut anywhere later
            size_t niac = telnet ? rng.below(3) : 0;
            for (size_t i = 0; i < niac; ++i) {
                unsigned w = (unsigned)rng.below(9);
                std::string s;
                switch (w) {
                    case 0: s = std::string("\xff\xfd\x01"); break;                                   // DO ECHO
                    case 1: s = std::string("\xff\xfe") + (char)rng.range(1, 60); ++c.donts; break;  // DONT x -> WONT x
                    case 2: s = std::string("\xff\xfb") + (char)rng.range(1, 60); break;             // WILL x
                    case 3: s = std::string("\xff\xfc") + (char)rng.range(1, 60); break;             // WONT x
                    case 4: s = std::string("\xff\xf1"); ++c.nops; break;                            // NOP -> NOP
                    case 5: s = std::string("\xff\xf9"); break;                                      // GA
                    case 6: { s = std::string("\xff\xfa\x1f"); for (int k = 0; k < 4; ++k) s += (char)rng.range(0, 0xfe); s += "\xff\xf0"; break; }   // SB NAWS
                    case 7: s = std::string("\xff\xfa\x18", 3) + std::string("\0xterm", 6) + "\xff\xf0"; break;                                       // SB TTYPE IS xterm
                    default: s = std::string("\xff\xff"); break;                                    // escaped 0xFF data byte
                }
                add(c, s, true);
                c.script += "<" + vh::hex(s) + "> ";
                vh::counter("tcp_telnet_commands_sent");
            }
            std::string text = std::string(rng.pick(kProbePaths)) + " " + std::to_string(++serial);
            unsigned e = (unsigned)rng.below(6);
            if (e == 0) text += " \"a b\"";
            else if (e == 1) text += " 'c  d' e";
            else if (e == 2) text += " --k=\"v w\"";
            else if (e == 3) { text = "ls"; }
            else if (e == 4) { text = "nosuch " + std::to_string(serial); }
            for (char ch : text) {
                add(c, std::string(1, ch), false); m.ch(ch);
                if (rng.chance(1, 12)) {
                    Key k = random_edit_key(rng);
                    if (k.kind == K_UP || k.kind == K_DOWN || k.last_only) continue;
                    if (k.kind == K_CHAR) k = key_char(alpha[rng.below(sizeof(alpha) - 1)]);
                    add(c, k.bytes, false);
                    switch (k.kind) {
                        case K_CHAR: m.ch(k.ch); break;
                        case K_BS: m.backspace(); break;
                        case K_DEL: m.del(); break;
                        case K_LEFT: m.left(); break;
                        case K_RIGHT: m.right(); break;
                        case K_HOME: m.home(); break;
                        case K_END: m.end(); break;
                        default: break;
                    }
                    vh::counter("tcp_edit_keys_sent");
                }
            }
            bool last = l + 1 == nlines;
            if (last && rng.chance(2, 5)) {
                // finish with an exit on its own line
                std::string line = m.enter();
                finish_line(c, line);
                add(c, key_enter((int)rng.below(3)).bytes, false);
                for (char ch : std::string(rng.chance(1, 2) ? "exit" : "quit")) add(c, std::string(1, ch), false);
                add(c, key_enter((int)rng.below(3)).bytes, false);
                c.enters += 1;
                c.sends_exit = true;
                c.script += "'exit' ";
            } else {
                std::string line = m.enter();
                finish_line(c, line);
                add(c, key_enter((int)rng.below(3)).bytes, false);
            }
        }
    }

    void finish_line(Client &c, const std::string &line) {
        c13::LineInfo li = c13::Classify(line, sh.probes);
        if (li.has_bang || li.tokens_unpinned || li.exit_may) c.wild = true;
        for (auto &it : li.items) c.items.push_back(it);
        c.enters += 1;
        c.script += "'" + line + "' ";
        sig.add(line);
    }

    void gen_hostile(Client &c, bool force_naws = false) {
        c.clean = false;
        if (force_naws || rng.chance(1, 4)) {
            // window-size block shorter than its four bytes as the very first data of the connection, delivered as
            // 3 + 3 bytes: util::Buffer sizes itself to twice the first read, so the block then fills a 6-byte heap
            // allocation exactly and a read past the block's end is visible to ASan
            std::string s("\xff\xfa\x1f");
            add(c, s, false);
            s.clear();
            size_t k = (force_naws || rng.chance(2, 3)) ? 1 : rng.below(4);
            for (size_t j = 0; j < k; ++j) s += (char)rng.range(0, 0xfe);
            s += "\xff\xf0";
            add(c, s, false);
            c.exact_prefix = 2;
            vh::counter("tcp_sb_naws_short_first_data");
        }
        size_t n = 1 + rng.below(10);
        for (size_t i = 0; i < n; ++i) {
            unsigned w = (unsigned)rng.below(14);
            if ((w == 6 || w == 7) && !rng.chance(1, 8)) w = 8;     // repeated exit is the direct hostile leg's staple; keep it occasional here
            if (w == 6 || w == 7) vh::counter("tcp_repeated_exit_in_one_write");
            std::string s;
            switch (w) {
                case 0: s = rng.bytes(1 + rng.below(200)); break;
                case 1: s = std::string(1 + rng.below(300), '\xff'); vh::counter("tcp_ff_runs"); break;
                case 2: { size_t k = 1 + rng.below(40); for (size_t j = 0; j < k; ++j) { s += '\xff'; s += (char)rng.range(0xec, 0xff); if (rng.chance(1, 2)) s += (char)rng.byte(); } break; }
                case 3: { s = "\xff\xfa"; size_t k = rng.below(8); for (size_t j = 0; j < k; ++j) s += (char)rng.byte(); vh::counter("tcp_sb_truncated"); break; }                    // SB never closed
                case 4: { s = std::string("\xff\xfa\x1f"); size_t k = rng.below(4); for (size_t j = 0; j < k; ++j) s += (char)rng.range(0, 0xfe); s += "\xff\xf0"; vh::counter("tcp_sb_naws_short"); break; }   // NAWS with < 4 bytes
                case 5: { s = "\xff\xfa\x1f\xff\xfa\x1f\x01\xff\xfa\xff\xf0\xff\xf0"; vh::counter("tcp_sb_nested"); break; }
                case 6: s = "exit\r\nexit\r\n"; break;
                case 7: s = "exit;exit;quit\r\nquit\r\n"; break;
                case 8: s = "tree\r\nls\r\nhelp\r\nhistory\r\n!!\r\n!0\r\n!-1\r\n"; break;
                case 9: { s = "/p "; size_t k = 1000 + rng.below(60000); for (size_t j = 0; j < k; ++j) s += (char)rng.range(0x20, 0x7e); s += "\r\n"; vh::counter("tcp_long_lines"); break; }
                case 10: { static const char *d[] = {"\x1b", "\x1b[", "\x1b[1", "\xc2", "\r", "\x1b[A", "\x1b[3~", "\x7f", "\xff", "\xff\xfd", "\xff\xfa", "\xff\xf0", "!", ";"}; size_t k = 1 + rng.below(30); for (size_t j = 0; j < k; ++j) s += rng.pick(d); break; }
                case 11: s = "\xff"; break;
                case 12: s = std::string("\xff\xfd\x01") + "/p 77\r\n\x1b[A\r\n"; break;
                default: { s = "/q 5\r\n"; size_t k = rng.below(5); for (size_t j = 0; j < k; ++j) s += "\x1b[A\r\n"; break; }
            }
            add(c, s, true);
        }
        if (rng.chance(1, 3)) { add(c, std::string("\xff\xfa\x1f\x00\x50", 5), true); vh::counter("tcp_truncated_iac_at_close"); }
        c.script = "hostile:";
        for (auto &a : c.atoms) c.script += " <" + vh::hex(a.bytes.substr(0, 24)) + (a.bytes.size() > 24 ? "..>" : ">");
    }

    //! next write of a client: a random run of whole atoms, possibly ending inside a splittable one
    bool next_segment(Client &c, std::string &seg) {
        seg.clear();
        if (c.next_atom >= c.atoms.size()) return false;
        size_t want = 1 + rng.below(rng.chance(1, 3) ? 2 : 24);
        if (c.next_atom < c.exact_prefix) want = 1;      // exactly sized first reads
        bool cut_inside = false;
        while (c.next_atom < c.atoms.size() && want > 0) {
            Atom &a = c.atoms[c.next_atom];
            size_t remain = a.bytes.size() - c.atom_off;
            if (a.splittable && remain > 1 && rng.chance(1, 3)) {
                size_t take = 1 + rng.below(remain - 1);
                seg.append(a.bytes, c.atom_off, take);
                c.atom_off += take;
                cut_inside = true;
                break;
            }
            seg.append(a.bytes, c.atom_off, remain);
            c.atom_off = 0;
            ++c.next_atom;
            --want;
        }
        if (cut_inside) vh::counter(c.clean ? "tcp_iac_cut_across_segments" : "tcp_hostile_atoms_cut");
        return true;
    }

    //! everything a clean client is entitled to has arrived (only used to decide how long to keep reading)
    bool satisfied(const Client &c) const {
        if (c.wild) return true;
        size_t must = 0;
        for (auto &it : c.items) if (it.must) ++must;
        if (count_sub(c.rx, "<R:") < must) return false;
        if (telnet) {
            if (count_sub(c.rx, "# ") < (size_t)c.enters + 1) return false;
            if (count_sub(c.rx, "\xff\xfc") < (size_t)c.donts) return false;
            if (count_sub(c.rx, "\xff\xf1") < (size_t)c.nops) return false;
        }
        if (c.sends_exit && !c.eof) return false;
        return true;
    }

    //! keep the loop turning until the clean clients have their replies; bounded generously (2 s of real time, reached
    //! only when something is really missing - the verdict is then on the content, not on the clock)
    void settle() {
        for (int i = 0; i < 200 && !aborted; ++i) {
            bool all = true;
            for (auto &c : clients) if (c.clean && c.fd >= 0 && !satisfied(c)) all = false;
            if (all) return;
            pump(1);
            struct timespec ts = {0, 10 * 1000 * 1000};
            nanosleep(&ts, nullptr);
            vh::counter("tcp_settle_waits_10ms");
        }
    }

    void check_clean(Client &c, size_t idx) {
        std::string who = vh::fmt("client %zu (%s) script: %s reply-stream(tail): \"%s\"", idx, telnet ? "telnet" : "tcprpc", c.script.substr(0, 1500).c_str(),
                                  esc(c.rx.size() > 500 ? c.rx.substr(c.rx.size() - 500) : c.rx).c_str());
        std::vector<Args> got = parse_markers(c.rx);
        if (c.wild) { vh::counter("tcp_clean_sessions_not_matched"); return; }
        if (!c.wild) {
            if (!c13::MatchCalls(c.items, got)) {
                std::string exp, act;
                for (auto &it : c.items) exp += (it.must ? " MUST" : " may") + c13::show_args(it.args);
                for (auto &a : got) act += " " + c13::show_args(a);
                vh::viol(std::string(telnet ? "telnet" : "tcprpc") + "/clean-session/probe-calls-differ", vh::fmt("%s; expected:%s; observed:%s", who.c_str(), exp.c_str(), act.c_str()));
            }
            for (auto &it : c.items) if (it.must) vh::counter("tcp_probe_calls_required_and_checked");
        }
        if (telnet) {
            size_t prompts = count_sub(c.rx, "# ");
            if (prompts != (size_t)c.enters + 1)
                vh::viol("telnet/clean-session/prompt-count", vh::fmt("%d Enter keys, %zu prompts in the reply stream (one is the greeting); %s", c.enters, prompts, who.c_str()));
            vh::counter("tcp_prompt_checks");
            size_t wonts = count_sub(c.rx, "\xff\xfc");
            size_t nops = count_sub(c.rx, "\xff\xf1");
            if (wonts != (size_t)c.donts)
                vh::viol("telnet/negotiation/wont-replies", vh::fmt("%d IAC DONT sent, %zu IAC WONT received; %s", c.donts, wonts, who.c_str()));
            if (nops != (size_t)c.nops)
                vh::viol("telnet/negotiation/nop-replies", vh::fmt("%d IAC NOP sent, %zu received; %s", c.nops, nops, who.c_str()));
            if (c.donts) vh::counter("tcp_wont_replies_checked", c.donts);
            if (c.nops) vh::counter("tcp_nop_replies_checked", c.nops);
        }
        if (c.sends_exit) {
            if (!c.eof) vh::viol(std::string(telnet ? "telnet" : "tcprpc") + "/exit/no-eof", "connection not closed by the server within the pass budget after exit; " + who);
            else vh::counter("tcp_exit_then_eof_seen");
            if (telnet && c.rx.find("Bye!") == std::string::npos) vh::viol("telnet/exit/no-bye", who);
        } else {
            VH_CHECK(!c.eof, std::string(telnet ? "telnet" : "tcprpc") + "/clean-session/closed-by-server", "%s", who.c_str());
        }
    }

    void run() {
        if (!start()) { vh::counter("tcp_server_start_failed"); fprintf(stderr, "VH-FATAL: c13-tcp-server-start-failed\n"); abort(); }
        runner.start(sh.loop);
        size_t ncl = 1 + rng.below(3);
        clients.resize(ncl);
        for (size_t i = 0; i < ncl && !aborted; ++i) {
            Client &c = clients[i];
            c.fd = connect_client();
            if (c.fd < 0) { fprintf(stderr, "VH-FATAL: c13-tcp-connect-failed errno=%d\n", errno); abort(); }
            pump(2);
            bool naws_case = telnet && i == 0 && case_idx % 8 == 0;     // every 8th case opens with the short window-size block
            if (!naws_case && rng.chance(11, 20)) { gen_clean(c); vh::counter("tcp_clean_sessions"); }
            else if (naws_case) { gen_hostile(c, true); vh::counter("tcp_hostile_sessions"); }
            else { gen_hostile(c); vh::counter("tcp_hostile_sessions"); }
            log(vh::fmt("c%zu:%s", i, c.script.substr(0, 300).c_str()));
        }
        // interleave the clients' writes
        size_t guard = 0;
        while (!aborted && guard++ < 5000) {
            std::vector<size_t> act;
            for (size_t i = 0; i < clients.size(); ++i) if (clients[i].fd >= 0 && !clients[i].closed_by_us && clients[i].next_atom < clients[i].atoms.size()) act.push_back(i);
            if (act.empty()) break;
            Client &c = clients[rng.pick(act)];
            std::string seg;
            if (!next_segment(c, seg)) continue;
            vh::counter("tcp_segments");
            vh::counter("tcp_bytes", seg.size());
            sig.add(seg);
            if (vh::st().args.verbose) fprintf(stderr, "write c%zu \"%s\"\n", (size_t)(&c - &clients[0]), esc(seg).c_str());
            if (!write_all(c, seg)) {
                if (aborted) break;
                if (c.clean && !c.sends_exit) vh::viol(std::string(telnet ? "telnet" : "tcprpc") + "/clean-session/write-failed", vh::fmt("errno=%d %s", errno, c.script.substr(0, 600).c_str()));
                c.next_atom = c.atoms.size();
                continue;
            }
            bool exact_first = c.next_atom <= c.exact_prefix && c.exact_prefix > 0;
            if (exact_first || !rng.chance(1, 5)) pump(1 + (int)rng.below(2));     // otherwise let the next write coalesce
            if (!c.clean && rng.chance(1, 25)) break_off(c);
        }
        if (aborted) return;
        pump(4);
        // hostile clients leave in hostile ways
        for (auto &c : clients) if (!c.clean && c.fd >= 0 && !c.closed_by_us) break_off(c);
        pump(3);
        if (aborted) return;
        settle();
        if (aborted) return;
        if (vh::st().args.verbose)
            for (size_t i = 0; i < clients.size(); ++i) {
                std::string all;
                for (auto &a : clients[i].atoms) all += a.bytes;
                fprintf(stderr, "client %zu clean=%d eof=%d sent=\"%s\"\n   rx=\"%s\"\n", i, (int)clients[i].clean, (int)clients[i].eof, esc(all).c_str(), esc(clients[i].rx).c_str());
            }
        for (size_t i = 0; i < clients.size(); ++i) if (clients[i].clean) check_clean(clients[i], i);
        // liveness: the server still serves a new client exactly
        Client lc;
        lc.fd = connect_client();
        if (lc.fd < 0) { vh::viol(std::string(telnet ? "telnet" : "tcprpc") + "/liveness/connect-refused", vh::fmt("errno=%d", errno)); }
        else {
            clients.push_back(lc);
            Client &c = clients.back();
            pump(2);
            write_all(c, "/p 424242 ok\r\n");
            Args want; want.push_back("/p"); want.push_back("424242"); want.push_back("ok");
            bool seen = false;
            for (int i = 0; i < 200 && !aborted && !seen; ++i) {
                pump(1);
                std::vector<Args> got = parse_markers(c.rx);
                seen = got.size() == 1 && got[0] == want;
                if (!seen && i >= 3) { struct timespec ts = {0, 10 * 1000 * 1000}; nanosleep(&ts, nullptr); }
            }
            if (aborted) return;
            if (!seen) vh::viol(std::string(telnet ? "telnet" : "tcprpc") + "/liveness/probe-not-executed-after-traffic", "a fresh client's command was not executed; reply stream: " + esc(c.rx.substr(0, 300)));
            else vh::counter("tcp_liveness_probe_ok");
        }
        for (auto &c : clients) if (c.fd >= 0) { ::close(c.fd); c.fd = -1; }
        pump(3);
    }

    void break_off(Client &c) {
        unsigned w = (unsigned)rng.below(4);
        if (w == 0) { ::shutdown(c.fd, SHUT_WR); vh::counter("tcp_half_close"); c.closed_by_us = true; }
        else if (w == 1) {
            struct linger lg; lg.l_onoff = 1; lg.l_linger = 0;
            ::setsockopt(c.fd, SOL_SOCKET, SO_LINGER, &lg, sizeof lg);
            ::close(c.fd); c.fd = -1; vh::counter("tcp_rst_close"); c.closed_by_us = true;
        } else { ::close(c.fd); c.fd = -1; vh::counter("tcp_abrupt_close"); c.closed_by_us = true; }
    }

    ~TcpWorld() {
        for (auto &c : clients) if (c.fd >= 0) ::close(c.fd);
        runner.shutdown();
        if (aborted || runner.dead) {
            // an exception went through the loop: internal callback-depth counters are off, destructors would assert. Leak.
            sh.term = nullptr; sh.loop = nullptr;
            return;
        }
        if (telnetd) { telnetd->stop(); telnetd->cleanup(); }
        if (rpc) { rpc->stop(); rpc->cleanup(); }
        try { sh.pump(2); } catch (...) {}
        delete telnetd;
        delete rpc;
    }
};

void case_tcp(uint64_t idx, vh::Rng &rng, bool telnet) {
    TcpWorld w(rng, telnet, idx);
    w.run();
    vh::counter("probe_invocations_total", w.sh.probe_total);
    vh::note_case(w.sig.h, w.sh.probe_total >= 2);
    if (vh::st().args.first == 0 && vh::want_sample(1) && !w.aborted && w.desc.size() > 200)
        vh::sample("{\"mode\":" + vh::jstr(telnet ? "telnet" : "tcprpc") + ",\"clients\":" + vh::jstr(w.desc.substr(0, 1200)) + "}", 1);
}


//! ------------------------------------------------------------------------------------------ service mode
//! Session teardown through the real front ends. One case = one loop with a Terminal, a Telnetd AND a TcpRpc, and
//! 8-24 scripted client sessions (up to 4 connected at a time). A session ends by `exit` / `quit` or by a command
//! node that calls Session::endSession(); what the client does next is placed an exact number of loop passes later
//! (same write, separate write without a pass in between, 1, 2 or 3 passes): more bytes (text, telnet commands,
//! a second exit, single bytes streamed one per pass), close, half-close, RST, or nothing. The harness is the only
//! thread, so "the pass right after the one that ran exit" is hit on purpose instead of by timing luck.
struct SvcStep {
    enum Kind { WRITE, CLOSE, SHUT_WR, RST, WAIT } kind;
    std::string bytes;
    int passes;
    bool is_end;        //!< the write that carries exit / the ending command
    bool is_after;      //!< belongs to what the client does after the ending write
};

struct SvcClient {
    int fd = -1;
    bool telnet = true;
    std::string rx;
    bool eof = false, reset = false;
    std::vector<SvcStep> steps;
    size_t next = 0;
    int wait = 0;
    int ending = 0;                 //!< 0 bystander, 1 exit/quit, 2 command node
    int passes_since_end = -1;      //!< loop passes since the ending write was made
    bool first_after_done = false;
    bool due = false;               //!< its wait ran out in the pass just made: the next step goes out before anything else happens
    bool closed_by_us = false, shut_wr = false;
    std::vector<Args> expect;       //!< probe invocations required before the ending write
    std::string script;
    bool done() const { return next >= steps.size(); }
};

struct ServiceWorld {
    Shell sh;
    vh::Rng &rng;
    uint64_t case_idx;
    Telnetd *telnetd = nullptr;
    TcpRpc *rpc = nullptr;
    int port_t = -1, port_r = -1;
    std::string path_t, path_r;
    std::vector<SvcClient> clients;     //!< all sessions of the case, live ones have fd >= 0 or pending steps
    bool aborted = false;
    std::string desc;
    vh::Sig sig;
    unsigned serial = 0;
    uint64_t node_end_calls = 0;
    LoopRunner runner;

    ServiceWorld(vh::Rng &r, uint64_t idx) : rng(r), case_idx(idx) {}

    void log(const std::string &s) { desc += s; desc += ' '; if (desc.size() < 5800) vh::st().case_desc = desc; }

    bool start() {
        sh.build_fixed_tree();
        sh.probe_reply = true;
        // a command node that ends its own session, reachable as /bye and (from the root) bye
        NodeToken bye = sh.term->createFuncNode([this](const Session &s, const Args &) {
            ++node_end_calls;
            s.send("bye-node\r\n");
            s.endSession();
        }, "ends the session");
        sh.term->mountNode(sh.term->rootNode(), bye, "bye");
        long every = vh::st().args.num("tcp-every", 8);
        if (every > 0 && case_idx % (uint64_t)every == 0) {
            for (int attempt = 0; attempt < 20; ++attempt) {
                port_t = pick_port(); port_r = pick_port();
                if (port_t < 0 || port_r < 0 || port_t == port_r) continue;
                telnetd = new Telnetd(sh.loop, sh.term);
                rpc = new TcpRpc(sh.loop, sh.term);
                if (telnetd->initialize("127.0.0.1:" + std::to_string(port_t)) && rpc->initialize("127.0.0.1:" + std::to_string(port_r)) &&
                    telnetd->start() && rpc->start()) { vh::counter("service_cases_over_loopback_tcp"); return true; }
                telnetd->cleanup(); rpc->cleanup();
                delete telnetd; telnetd = nullptr;
                delete rpc; rpc = nullptr;
            }
            vh::counter("tcp_loopback_unavailable_fell_back_to_unix");
        }
        telnetd = new Telnetd(sh.loop, sh.term);
        rpc = new TcpRpc(sh.loop, sh.term);
        port_t = port_r = -1;
        std::string dir = vh::st().args.out.empty() ? std::string("/var/tmp") : vh::st().args.out;
        std::string base = dir + "/c13s_" + std::to_string((long)getpid());
        if (base.size() + 3 >= sizeof(((struct sockaddr_un *)0)->sun_path)) base = "/var/tmp/c13s_" + std::to_string((long)getpid());
        path_t = base + ".t"; path_r = base + ".r";
        if (telnetd->initialize(path_t) && rpc->initialize(path_r) && telnetd->start() && rpc->start()) { vh::counter("service_cases_over_unix_socket"); return true; }
        return false;
    }

    int connect_to(bool telnet) {
        int port = telnet ? port_t : port_r;
        if (port < 0) {
            const std::string &path = telnet ? path_t : path_r;
            int ufd = ::socket(AF_UNIX, SOCK_STREAM, 0);
            if (ufd < 0) return -1;
            struct sockaddr_un u;
            memset(&u, 0, sizeof u);
            u.sun_family = AF_UNIX;
            memcpy(u.sun_path, path.data(), path.size());
            if (::connect(ufd, (struct sockaddr *)&u, sizeof u) != 0) { ::close(ufd); return -1; }
            return ufd;
        }
        int fd = ::socket(AF_INET, SOCK_STREAM, 0);
        if (fd < 0) return -1;
        struct sockaddr_in a;
        memset(&a, 0, sizeof a);
        a.sin_family = AF_INET;
        a.sin_addr.s_addr = htonl(INADDR_LOOPBACK);
        a.sin_port = htons((uint16_t)port);
        if (::connect(fd, (struct sockaddr *)&a, sizeof a) != 0) { ::close(fd); return -1; }
        int one = 1;
        ::setsockopt(fd, IPPROTO_TCP, TCP_NODELAY, &one, sizeof one);
        ::setsockopt(fd, IPPROTO_TCP, TCP_QUICKACK, &one, sizeof one);
        return fd;
    }

    void drain(SvcClient &c) {
        if (c.fd < 0) return;
        char b[4096];
        for (;;) {
            ssize_t n = ::recv(c.fd, b, sizeof b, MSG_DONTWAIT);
            if (n > 0) {
                if (c.rx.size() < (1u << 20)) c.rx.append(b, (size_t)n);
                int one = 1;
                if (port_t >= 0) ::setsockopt(c.fd, IPPROTO_TCP, TCP_QUICKACK, &one, sizeof one);
                continue;
            }
            if (n == 0) c.eof = true;
            else if (errno == ECONNRESET || errno == EPIPE) { c.reset = true; c.eof = true; }
            break;
        }
    }

    //! one loop pass; an exception that leaves the loop is the violation this leg exists for
    void pass() {
        if (aborted) return;
        runner.tick();
        if (runner.dead) {
            std::string hist;
            bool by_exit = false, by_node = false;
            for (auto &c : clients) if (c.passes_since_end >= 0 && c.passes_since_end <= 2) {
                hist += " [" + c.script + " | passes since ending write: " + std::to_string(c.passes_since_end) + "]";
                (c.ending == 1 ? by_exit : by_node) = true;
            }
            // which kind of session was being torn down: keeps unrelated root causes under different keys
            const char *cls = by_exit && by_node ? "exit-and-command-node-sessions" : by_node ? "command-node-session" : by_exit ? "exit-session" : "no-ending-session";
            vh::viol("service/uncaught-exception/" + runner.ex_name + "@runLoop/tearing-down-" + cls,
                     vh::fmt("what='%s'; sessions that ended within the last passes:%s", runner.ex_what.c_str(), hist.substr(0, 1500).c_str()));
            aborted = true;
            return;
        }
        vh::counter("service_loop_passes");
        if (vh::st().args.verbose) fprintf(stderr, "-- pass\n");
        for (auto &c : clients) {
            if (c.wait > 0 && --c.wait == 0) c.due = true;
            if (c.passes_since_end >= 0) ++c.passes_since_end;
            drain(c);
        }
    }

    void add(SvcClient &c, SvcStep::Kind k, const std::string &b, int passes, bool is_end, bool is_after) {
        SvcStep st; st.kind = k; st.bytes = b; st.passes = passes; st.is_end = is_end; st.is_after = is_after;
        c.steps.push_back(st);
    }

    std::string after_bytes(bool telnet) {
        unsigned w = (unsigned)rng.below(telnet ? 12 : 8);
        switch (w) {
            case 0: return "ls\r\n";
            case 1: return "x";
            case 2: return "\r\n";
            case 3: return "/p 5\r\n";
            case 4: return "exit\r\n";
            case 5: return "\n";
            case 6: return "tree\r\nhistory\r\n";
            case 7: return std::string(1 + rng.below(40), 'z');
            case 8: return std::string("\xff\xfd\x01");                 // DO ECHO   -> onRecvNego looks the session up
            case 9: return std::string("\xff\xf1");                     // NOP       -> onRecvCmd
            case 10: return std::string("\xff\xfa\x1f\x00\x50\x00\x18\xff\xf0", 9);   // SB NAWS -> onRecvSub looks the session up
            default: return std::string("\xff");                        // incomplete command
        }
    }

    void gen(SvcClient &c) {
        c.telnet = rng.chance(1, 2);
        c.script = c.telnet ? "telnet:" : "tcprpc:";
        if (c.telnet && rng.chance(1, 3)) { add(c, SvcStep::WRITE, std::string("\xff\xfd\x01"), 0, false, false); c.script += " <DO ECHO>"; }
        size_t pre = rng.below(3);
        for (size_t i = 0; i < pre; ++i) {
            std::string n = std::to_string(++serial);
            std::string path = rng.pick(kProbePaths);
            add(c, SvcStep::WRITE, path + " " + n + (rng.chance(1, 2) ? "\r\n" : "\n"), 0, false, false);
            Args a; a.push_back(path); a.push_back(n);
            c.expect.push_back(a);
            c.script += " '" + path + " " + n + "'";
            if (rng.chance(1, 2)) add(c, SvcStep::WAIT, "", 1 + (int)rng.below(2), false, false);
        }
        unsigned kind = (unsigned)rng.below(10);
        if (kind == 0) { c.ending = 0; c.script += " (bystander)"; vh::counter("service_bystander_sessions"); return; }
        c.ending = kind <= 6 ? 1 : 2;
        // a third of the cases end sessions by exit only, a third by the command node only: keeps the two teardown paths apart
        if (case_idx % 3 == 1) c.ending = 1;
        if (case_idx % 3 == 2) c.ending = 2;
        static const char *exits[] = {"exit\r\n", "quit\r\n", "exit\n", "", "exit now\r\n", " exit\r\n"};      // [3] is CR NUL, built below
        static const char *byes[] = {"/bye\r\n", "bye\n", "/bye x y\r\n"};
        std::string e;
        if (c.ending == 1) { unsigned k = (unsigned)rng.below(6); e = k == 3 ? std::string("exit\r\0", 6) : std::string(exits[k]); }
        else e = rng.pick(byes);
        c.script += " END'" + esc(e) + "'";
        // what follows, and how many loop passes later
        unsigned gap = (unsigned)rng.below(10);      // 0: same write, 1: separate write / no pass, 2-6: one pass, 7-8: two, 9: three
        int passes = gap <= 1 ? 0 : gap <= 6 ? 1 : gap <= 8 ? 2 : 3;
        unsigned after = (unsigned)rng.below(10);   // 0-4 more bytes, 5-6 close, 7 half-close, 8 RST, 9 nothing
        if (after <= 4 && gap == 0) {
            std::string more = after_bytes(c.telnet);
            add(c, SvcStep::WRITE, e + more, 0, true, false);
            c.script += "+'" + esc(more) + "' in the same write";
            vh::counter("service_end_with_more_bytes_in_same_write");
        } else {
            add(c, SvcStep::WRITE, e, 0, true, false);
        }
        if (passes > 0) add(c, SvcStep::WAIT, "", passes, false, true);
        c.script += vh::fmt(" then after %d pass(es):", passes);
        if (after <= 4) {
            size_t n = rng.chance(1, 3) ? 1 + rng.below(5) : 1;
            for (size_t i = 0; i < n; ++i) {
                std::string more = (n > 1 && rng.chance(1, 2)) ? std::string(1, (char)rng.range(0x20, 0x7e)) : after_bytes(c.telnet);
                add(c, SvcStep::WRITE, more, 0, false, true);
                c.script += " '" + esc(more) + "'";
                if (i + 1 < n) add(c, SvcStep::WAIT, "", (int)rng.below(2), false, true);
            }
            if (rng.chance(1, 3)) { add(c, SvcStep::WAIT, "", (int)rng.below(3), false, true); add(c, SvcStep::CLOSE, "", 0, false, true); c.script += " close"; }
        } else if (after <= 6) { add(c, SvcStep::CLOSE, "", 0, false, true); c.script += " close"; }
        else if (after == 7) { add(c, SvcStep::SHUT_WR, "", 0, false, true); c.script += " half-close"; }
        else if (after == 8) { add(c, SvcStep::RST, "", 0, false, true); c.script += " RST"; }
        else c.script += " nothing";
    }

    //! one scripted action; a WAIT that follows it is armed at once, so the number of passes is counted from the action itself
    void do_step(SvcClient &c) {
        do_one(c);
        while (!c.done() && c.steps[c.next].kind == SvcStep::WAIT) do_one(c);
    }

    void do_one(SvcClient &c) {
        SvcStep &st = c.steps[c.next++];
        if (vh::st().args.verbose) fprintf(stderr, "c%zu %s kind=%d \"%s\" passes=%d since_end=%d\n", (size_t)(&c - &clients[0]), c.telnet ? "telnet" : "rpc", (int)st.kind, esc(st.bytes).c_str(), st.passes, c.passes_since_end);
        bool first_after = st.is_after && st.kind != SvcStep::WAIT && !c.first_after_done;
        const char *what = nullptr;
        switch (st.kind) {
            case SvcStep::WAIT: c.wait += st.passes; return;
            case SvcStep::WRITE: {
                if (c.fd < 0) return;
                ssize_t n = ::send(c.fd, st.bytes.data(), st.bytes.size(), MSG_NOSIGNAL | MSG_DONTWAIT);
                (void)n;        // a refused write after the server's disconnect is part of the history, not an error
                sig.add(st.bytes);
                vh::counter("service_writes");
                if (st.is_end) {
                    c.passes_since_end = 0;
                    vh::counter(c.ending == 1 ? "service_sessions_sent_exit" : "service_sessions_sent_node_command");
                    vh::counter(c.telnet ? "service_endings_over_telnet" : "service_endings_over_tcprpc");
                }
                what = "more_bytes";
                break;
            }
            case SvcStep::CLOSE: if (c.fd >= 0) { ::close(c.fd); c.fd = -1; } c.closed_by_us = true; what = "client_close"; break;
            case SvcStep::SHUT_WR: if (c.fd >= 0) ::shutdown(c.fd, SHUT_WR); c.shut_wr = true; what = "client_half_close"; break;
            case SvcStep::RST:
                if (c.fd >= 0) {
                    struct linger lg; lg.l_onoff = 1; lg.l_linger = 0;
                    ::setsockopt(c.fd, SOL_SOCKET, SO_LINGER, &lg, sizeof lg);
                    ::close(c.fd); c.fd = -1;
                }
                c.closed_by_us = true; what = "client_reset"; break;
        }
        if (first_after && what) {
            c.first_after_done = true;
            const char *when = c.passes_since_end == 0 ? "without_a_pass_between" : c.passes_since_end == 1 ? "in_next_pass" : "two_or_more_passes_later";
            vh::counter(std::string(c.ending == 1 ? "sessions_ended_by_exit_then_" : "sessions_ended_by_command_node_then_") + what + "_" + when);
        }
    }

    void run() {
        if (!start()) { fprintf(stderr, "VH-FATAL: c13-service-start-failed\n"); abort(); }
        runner.start(sh.loop);
        size_t total = 8 + rng.below(17);
        size_t started = 0;
        clients.reserve(total + 2);
        size_t guard = 0;
        for (;;) {
            if (aborted || ++guard > 20000) break;
            // what was scheduled for "exactly this many passes later" goes out now
            for (size_t i = 0; i < clients.size(); ++i) {
                SvcClient &c = clients[i];
                if (!c.due) continue;
                c.due = false;
                if (!c.done() && c.wait == 0) do_step(c);
            }
            // keep up to 4 sessions connected
            size_t live = 0;
            for (auto &c : clients) if (c.fd >= 0 && !c.done()) ++live;
            if (started < total && live < 4 && (live == 0 || rng.chance(1, 2))) {
                clients.push_back(SvcClient());
                SvcClient &c = clients.back();
                gen(c);
                c.fd = connect_to(c.telnet);
                if (c.fd < 0) { fprintf(stderr, "VH-FATAL: c13-service-connect-failed errno=%d\n", errno); abort(); }
                ++started;
                log(vh::fmt("c%zu=%s;", clients.size() - 1, c.script.c_str()));
                pass();         // accept (listen backlog is 1)
                continue;
            }
            std::vector<size_t> ready;
            bool pending = false;
            for (size_t i = 0; i < clients.size(); ++i) {
                SvcClient &c = clients[i];
                if (c.done()) continue;
                pending = true;
                if (c.wait == 0) ready.push_back(i);
            }
            if (!pending && started >= total) break;
            if (!ready.empty() && rng.chance(4, 5)) do_step(clients[rng.pick(ready)]);
            else pass();
        }
        if (aborted) return;
        for (int i = 0; i < 4; ++i) pass();
        // every session that asked to end must have been disconnected by the server
        for (int i = 0; i < 200 && !aborted; ++i) {
            bool waiting = false;
            for (auto &c : clients) if (c.ending != 0 && c.fd >= 0 && !c.eof) waiting = true;
            if (!waiting) break;
            pass();
            if (port_t >= 0 && i >= 3) { struct timespec ts = {0, 10 * 1000 * 1000}; nanosleep(&ts, nullptr); vh::counter("tcp_settle_waits_10ms"); }
        }
        if (aborted) return;
        for (size_t i = 0; i < clients.size(); ++i) {
            SvcClient &c = clients[i];
            std::string who = vh::fmt("session %zu: %s; reply stream tail \"%s\"", i, c.script.c_str(), esc(c.rx.size() > 160 ? c.rx.substr(c.rx.size() - 160) : c.rx).c_str());
            std::vector<Args> got = parse_markers(c.rx);
            bool prefix_ok = got.size() >= c.expect.size();
            for (size_t k = 0; prefix_ok && k < c.expect.size(); ++k) if (got[k] != c.expect[k]) prefix_ok = false;
            if (!prefix_ok && !(c.closed_by_us && c.ending != 0))
                vh::viol("service/commands-before-the-ending-not-executed", who);
            else if (!c.expect.empty()) vh::counter("service_probe_replies_checked", c.expect.size());
            if (c.ending != 0 && c.fd >= 0) {
                if (!c.eof) vh::viol(c.ending == 1 ? "service/exit/not-disconnected-by-server" : "service/command-node-endSession/not-disconnected-by-server", who);
                else vh::counter(c.ending == 1 ? "service_exit_sessions_disconnected_by_server" : "sessions_ended_by_command_node");
            }
            if (c.ending == 0 && c.eof) vh::viol("service/bystander-disconnected", who);
        }
        // the sessions that never asked to end still work, and so do both front ends for a newcomer
        for (int fe = 0; fe < 2; ++fe) {
            clients.push_back(SvcClient());
            SvcClient &c = clients.back();
            c.telnet = fe == 0; c.ending = 0; c.script = c.telnet ? "telnet: (newcomer)" : "tcprpc: (newcomer)";
            c.fd = connect_to(c.telnet);
            if (c.fd < 0) { vh::viol("service/liveness/connect-refused", c.script); continue; }
            pass();
        }
        if (aborted) return;
        for (size_t i = 0; i < clients.size(); ++i) {
            SvcClient &c = clients[i];
            if (c.ending != 0 || c.fd < 0) continue;
            std::string n = std::to_string(900000 + i);
            std::string line = "/q " + n + "\r\n";
            size_t before = parse_markers(c.rx).size();
            if (::send(c.fd, line.data(), line.size(), MSG_NOSIGNAL | MSG_DONTWAIT) < 0) { vh::viol("service/bystander-write-failed", c.script); continue; }
            Args want; want.push_back("/q"); want.push_back(n);
            bool seen = false;
            for (int k = 0; k < 200 && !aborted && !seen; ++k) {
                pass();
                std::vector<Args> got = parse_markers(c.rx);
                seen = got.size() == before + 1 && got.back() == want;
                if (!seen && port_t >= 0 && k >= 3) { struct timespec ts = {0, 10 * 1000 * 1000}; nanosleep(&ts, nullptr); }
                if (!seen && port_t < 0 && k >= 6) break;
            }
            if (aborted) return;
            if (!seen) vh::viol("service/other-session-stopped-working", vh::fmt("%s; reply stream tail \"%s\"", c.script.c_str(), esc(c.rx.size() > 160 ? c.rx.substr(c.rx.size() - 160) : c.rx).c_str()));
            else vh::counter("service_other_sessions_still_working");
        }
        for (auto &c : clients) if (c.fd >= 0) { ::close(c.fd); c.fd = -1; }
        for (int i = 0; i < 3; ++i) pass();
        runner.shutdown();
        vh::counter("service_sessions", total);
        vh::counter("service_node_endSession_calls", node_end_calls);
    }

    ~ServiceWorld() {
        for (auto &c : clients) if (c.fd >= 0) ::close(c.fd);
        runner.shutdown();
        if (aborted || runner.dead) {      // an exception went through the loop: callback-depth counters are off, destructors would assert. Leak.
            sh.term = nullptr; sh.loop = nullptr;
            if (!path_t.empty()) { ::unlink(path_t.c_str()); ::unlink(path_r.c_str()); }
            return;
        }
        if (telnetd) { telnetd->stop(); telnetd->cleanup(); }
        if (rpc) { rpc->stop(); rpc->cleanup(); }
        try { sh.pump(2); } catch (...) {}
        delete telnetd;
        delete rpc;
    }
};

void case_service(uint64_t idx, vh::Rng &rng) {
    ServiceWorld w(rng, idx);
    w.run();
    vh::counter("probe_invocations_total", w.sh.probe_total);
    vh::note_case(w.sig.h, !w.aborted);
    if (vh::st().args.first == 0 && vh::want_sample(1) && !w.aborted)
        vh::sample("{\"mode\":\"service\",\"sessions\":" + vh::jstr(w.desc.substr(0, 1500)) + "}", 1);
}

}  // namespace

int main(int argc, char **argv) {
    // Writing to a connection the peer has reset raises SIGPIPE in BufferedFd (plain write()). cpp-tbox's own main
    // module routes SIGPIPE to a warning handler (modules/main/run_in_*.cpp); the harness does the equivalent, so the
    // process-level signal policy is not what this check judges (listed under assumptions).
    signal(SIGPIPE, SIG_IGN);
    return vh::run(argc, argv, [](uint64_t idx, vh::Rng &rng) {
        const std::string &mode = vh::st().args.mode;
        if (mode == "editor") case_editor(idx, rng);
        else if (mode == "histref") case_histref(idx, rng);
        else if (mode == "hostile") case_hostile(idx, rng);
        else if (mode == "telnet") case_tcp(idx, rng, true);
        else if (mode == "tcprpc") case_tcp(idx, rng, false);
        else if (mode == "service") case_service(idx, rng);
        else { fprintf(stderr, "VH-FATAL: unknown-mode\n"); abort(); }
    });
}
