// C16: flow::StateMachine (hierarchical FSM) in lock-step with an independent reference interpreter.
//
// A case = a generated hierarchy of machine definitions (states with/without enter/exit actions, user-defined
// or implicit terminal state 0, good/bad initial state, routes with wildcard/specific events and guards,
// per-state handlers, nested machines to depth 3, state-changed callbacks) + a script of
// start/run(e)/stop/restart calls on the top machine.  Every callback of the real machines appends to a global
// trace (kind, machine, state(s), event id + extra pointer, and that machine's currentState/lastState/nextState/
// isRunning/isTerminated at that moment).  After every call the trace, the return value and the observers of
// every machine in the hierarchy are compared with the reference (struct Ref below, written from state_machine.h
// and the property text).  Independently of the reference a balance monitor follows enter/exit actions.
// Probes: some callbacks call run/start/stop/restart on their own machine (or an ancestor) while it is inside
// the action; those calls must be rejected (return false, no callback runs, no observer changes).
//
// modes: random (seeded generator), exhaustive (mixed-radix enumeration of a small definition x call space),
//        xcount (prints the size of the exhaustive space for the given --depth/--guards).
#include "common/vh.hpp"
#include <tbox/flow/state_machine.h>
#include <algorithm>
#include <climits>
#include <memory>
#include <map>
#include <string>
#include <vector>

using tbox::flow::StateMachine;
using tbox::flow::Event;

namespace {

const int NONE = -1;

enum Kind { K_HANDLER = 0, K_GUARD, K_EXIT, K_ACTION, K_ENTER, K_CHANGED, K_NKINDS };
const char *const kKindName[] = {"handler", "guard", "exit", "route-action", "enter", "changed"};
enum Op { OP_NONE = 0, OP_RUN, OP_START, OP_STOP, OP_RESTART };
const char *const kOpName[] = {"none", "run", "start", "stop", "restart"};

// ---------------------------------------------------------------------------------------------
// counters (array indexed; flushed into vh counters at the end of the process)
// ---------------------------------------------------------------------------------------------
#define C16_COUNTERS(X) \
    X(calls_run) X(calls_start) X(calls_stop) X(calls_restart) \
    X(start_while_running) X(start_bad_init) X(stop_while_stopped) X(run_while_stopped) X(run_in_implicit_terminal) \
    X(delegate_to_nested) X(delegate_depth2plus) X(nested_not_terminated_return) X(nested_terminated_fallthrough) \
    X(own_routes_after_nested_stopped) X(nested_terminated_on_entry_event) \
    X(handler_specific) X(handler_default) X(handler_declined) X(handler_picked_target) X(handler_picked_terminal) \
    X(handler_invalid_target) X(handler_other_negative) X(handler_shadows_route) \
    X(route_scan) X(route_scan_no_match) X(route_taken_specific) X(route_taken_wildcard) \
    X(route_taken_after_failed_candidate) X(route_wildcard_shadows_later_specific) X(route_multiple_candidates) \
    X(guard_true) X(guard_false) \
    X(transition) X(transition_self) X(transition_to_implicit_terminal) X(transition_to_user_terminal) \
    X(action_exit) X(action_route) X(action_enter) X(changed_notification) \
    X(enter_starts_nested) X(start_starts_nested) \
    X(stop_with_active_nested) X(stop_with_active_nested_depth2) X(terminated_nested_stopped_with_own_nested_active) X(restart_with_active_nested) X(stop_in_terminal) \
    X(reentry_own_run) X(reentry_own_start) X(reentry_own_stop) X(reentry_own_restart) \
    X(reentry_ancestor_run) X(reentry_ancestor_start) X(reentry_ancestor_stop) X(reentry_ancestor_restart) \
    X(reentry_in_handler) X(reentry_in_guard) X(reentry_in_exit) X(reentry_in_route_action) X(reentry_in_enter) \
    X(reentry_in_changed) \
    X(define_rejected_duplicate_state) X(define_rejected_route) X(define_rejected_handler) X(define_rejected_sub) \
    X(balance_checks_at_stop) X(balance_states_closed) X(observer_comparisons) X(trace_events_compared) \
    X(event_with_extra) X(machines) X(cases_aborted_on_violation)
enum CounterId {
#define X(n) C_##n,
    C16_COUNTERS(X)
#undef X
    C_NCOUNTERS
};
const char *const kCounterName[] = {
#define X(n) #n,
    C16_COUNTERS(X)
#undef X
};
uint64_t g_cnt[C_NCOUNTERS];
uint64_t g_max_depth_active = 0, g_max_trace_len = 0;
inline void cnt(CounterId c, uint64_t n = 1) { g_cnt[c] += n; }

// ---------------------------------------------------------------------------------------------
// case specification
// ---------------------------------------------------------------------------------------------
struct Probe { int op = OP_NONE; int up = 0; int ev = 0; };   // up: 0 = own machine, k = k-th ancestor

//! guard kinds: 0 nullptr, 1 const true, 2 const false, 3 id == arg, 4 id odd, 5 alternating (false,true,false,...)
struct GuardSpec { int kind = 0; int arg = 0; };
struct RouteSpec { int from = 0, ev = 0, to = 0; GuardSpec g; bool has_action = false; Probe gp, ap; };
//! handler kinds: 0 returns -1, 1 returns arg (a target), 2 returns arg (a negative other than -1),
//!                3 event-dependent tbl[id & 3], 4 nullptr function (addEvent must fail)
struct HandlerSpec { int state = 0, ev = 0, kind = 0, arg = 0; int tbl[4] = {0, 0, 0, 0}; Probe p; };
struct StateSpec { int id = 0; bool has_enter = true, has_exit = true; Probe ep, xp; };
struct SubSpec { int state = 0, machine = 0; };

enum DefOp { D_STATE, D_ROUTE, D_HANDLER, D_INIT, D_SUB, D_CB };
struct Def { int op; int idx; };

struct MachineSpec {
    int parent = -1, depth = 0, host_state = 0;
    std::vector<StateSpec> states;
    std::vector<RouteSpec> routes;
    std::vector<HandlerSpec> handlers;
    std::vector<SubSpec> subs;
    std::vector<int> inits;
    bool has_cb = false;
    Probe cbp;
    std::vector<Def> script;     //! definition calls in the order they are made
};
struct Call { int op = OP_RUN; int ev = 0; int extra = 0; };
struct CaseSpec {
    std::vector<MachineSpec> m;
    std::vector<Call> calls;
};

int g_extras[4];   //! targets for Event::extra
inline const void *extra_ptr(int i) { return i ? &g_extras[i & 3] : nullptr; }

std::string probe_str(const Probe &p) {
    if (p.op == OP_NONE) return "";
    std::string who = p.up == 0 ? "self" : vh::fmt("anc%d", p.up);
    if (p.op == OP_RUN) return vh::fmt("{%s.run(%d)}", who.c_str(), p.ev);
    return vh::fmt("{%s.%s()}", who.c_str(), kOpName[p.op]);
}
std::string guard_str(const GuardSpec &g) {
    switch (g.kind) {
        case 0: return "-";
        case 1: return "true";
        case 2: return "false";
        case 3: return vh::fmt("id==%d", g.arg);
        case 4: return "id-odd";
        default: return "alternating";
    }
}
std::string describe(const CaseSpec &cs) {
    std::string o;
    for (size_t mi = 0; mi < cs.m.size(); ++mi) {
        const MachineSpec &M = cs.m[mi];
        if (M.parent < 0) o += vh::fmt("M%zu(top): ", mi);
        else o += vh::fmt("M%zu(nested in M%d.S%d, depth %d): ", mi, M.parent, M.host_state, M.depth);
        for (const Def &d : M.script) {
            switch (d.op) {
                case D_STATE: {
                    const StateSpec &S = M.states[d.idx];
                    o += vh::fmt("newState(%d,%s%s,%s%s); ", S.id, S.has_enter ? "enter" : "null", probe_str(S.ep).c_str(),
                                 S.has_exit ? "exit" : "null", probe_str(S.xp).c_str());
                    break;
                }
                case D_ROUTE: {
                    const RouteSpec &R = M.routes[d.idx];
                    o += vh::fmt("addRoute#%d(%d,ev%d,%d,guard=%s%s,%s%s); ", d.idx, R.from, R.ev, R.to, guard_str(R.g).c_str(),
                                 probe_str(R.gp).c_str(), R.has_action ? "action" : "null", probe_str(R.ap).c_str());
                    break;
                }
                case D_HANDLER: {
                    const HandlerSpec &H = M.handlers[d.idx];
                    std::string r;
                    if (H.kind == 0) r = "ret -1";
                    else if (H.kind == 1 || H.kind == 2) r = vh::fmt("ret %d", H.arg);
                    else if (H.kind == 3) r = vh::fmt("ret [%d,%d,%d,%d][id&3]", H.tbl[0], H.tbl[1], H.tbl[2], H.tbl[3]);
                    else r = "nullptr";
                    o += vh::fmt("addEvent#%d(%d,ev%d,%s%s); ", d.idx, H.state, H.ev, r.c_str(), probe_str(H.p).c_str());
                    break;
                }
                case D_INIT: o += vh::fmt("setInitState(%d); ", M.inits[d.idx]); break;
                case D_SUB: o += vh::fmt("setSubStateMachine(%d,M%d); ", M.subs[d.idx].state, M.subs[d.idx].machine); break;
                case D_CB: o += vh::fmt("setStateChangedCallback(cb%s); ", probe_str(M.cbp).c_str()); break;
            }
        }
        o += "| ";
    }
    return o;
}
std::string call_str(const Call &c) {
    if (c.op == OP_RUN) return c.extra ? vh::fmt("run(%d,extra%d)", c.ev, c.extra) : vh::fmt("run(%d)", c.ev);
    return vh::fmt("%s()", kOpName[c.op]);
}

void sig_probe(vh::Sig &s, const Probe &p) { s.add((uint64_t)p.op * 64 + (uint64_t)p.up * 16 + (uint64_t)(p.ev & 15)); }
uint64_t signature(const CaseSpec &cs) {
    vh::Sig s;
    for (const MachineSpec &M : cs.m) {
        s.add((uint64_t)(M.parent + 2) * 1000 + (uint64_t)M.host_state);
        for (const Def &d : M.script) {
            s.add((uint64_t)d.op * 100 + (uint64_t)d.idx);
            switch (d.op) {
                case D_STATE: { const StateSpec &S = M.states[d.idx]; s.add((uint64_t)S.id * 4 + S.has_enter * 2 + S.has_exit); sig_probe(s, S.ep); sig_probe(s, S.xp); break; }
                case D_ROUTE: { const RouteSpec &R = M.routes[d.idx];
                    s.add((uint64_t)(R.from + 1) * 1000003 + (uint64_t)(R.ev + 50) * 1009 + (uint64_t)(R.to + 1) * 31 + R.g.kind * 2 + R.has_action);
                    s.add((uint64_t)(R.g.arg + 50)); sig_probe(s, R.gp); sig_probe(s, R.ap); break; }
                case D_HANDLER: { const HandlerSpec &H = M.handlers[d.idx];
                    s.add((uint64_t)(H.state + 1) * 1000003 + (uint64_t)(H.ev + 50) * 1009 + (uint64_t)H.kind * 131 + (uint64_t)(H.arg + 50));
                    for (int t : H.tbl) s.add((uint64_t)(t + 50)); sig_probe(s, H.p); break; }
                case D_INIT: s.add((uint64_t)(M.inits[d.idx] + 50)); break;
                case D_SUB: s.add((uint64_t)M.subs[d.idx].state * 100 + (uint64_t)M.subs[d.idx].machine); break;
                case D_CB: sig_probe(s, M.cbp); break;
            }
        }
    }
    for (const Call &c : cs.calls) s.add((uint64_t)c.op * 4096 + (uint64_t)(c.ev + 50) * 8 + (uint64_t)c.extra);
    return s.h;
}

// ---------------------------------------------------------------------------------------------
// trace
// ---------------------------------------------------------------------------------------------
struct Obs {
    int cur = NONE, last = NONE, next = NONE;
    bool running = false, term = false;
    bool operator==(const Obs &o) const { return cur == o.cur && last == o.last && next == o.next && running == o.running && term == o.term; }
    bool operator!=(const Obs &o) const { return !(*this == o); }
};
std::string obs_str(const Obs &o) {
    return vh::fmt("[cur=%d last=%d next=%d%s%s]", o.cur, o.last, o.next, o.running ? " running" : " stopped", o.term ? " terminated" : "");
}
struct Ev {
    int kind = 0, m = 0, idx = 0, a = 0, b = 0, eid = 0;
    const void *extra = nullptr;
    Obs obs;
    bool operator==(const Ev &o) const {
        return kind == o.kind && m == o.m && idx == o.idx && a == o.a && b == o.b && eid == o.eid && extra == o.extra && obs == o.obs;
    }
};
std::string ev_str(const Ev &e) {
    std::string what;
    switch (e.kind) {
        case K_HANDLER: what = vh::fmt("handler#%d->%d", e.idx, e.a); break;
        case K_GUARD: what = vh::fmt("guard(route#%d)->%s", e.idx, e.a ? "true" : "false"); break;
        case K_EXIT: what = vh::fmt("exit(S%d)", e.a); break;
        case K_ACTION: what = vh::fmt("route-action(route#%d S%d->S%d)", e.idx, e.a, e.b); break;
        case K_ENTER: what = vh::fmt("enter(S%d,def#%d)", e.a, e.idx); break;
        default: what = vh::fmt("changed(S%d->S%d)", e.a, e.b); break;
    }
    return vh::fmt("M%d.%s ev=%d%s %s", e.m, what.c_str(), e.eid, e.extra ? "+extra" : "", obs_str(e.obs).c_str());
}
std::string trace_str(const std::vector<Ev> &t, size_t from = 0, size_t max = 14) {
    std::string o;
    for (size_t i = from; i < t.size() && i < from + max; ++i) o += vh::fmt("\n      %zu: ", i) + ev_str(t[i]);
    if (t.size() > from + max) o += vh::fmt("\n      ... (%zu more)", t.size() - from - max);
    if (t.size() <= from) o += "\n      (none)";
    return o;
}

//! deterministic user functions shared by both sides (each side keeps its own evaluation counters)
inline bool eval_guard(const GuardSpec &g, const Event &e, int &count) {
    ++count;
    switch (g.kind) {
        case 1: return true;
        case 2: return false;
        case 3: return e.id == g.arg;
        case 4: return (e.id & 1) != 0;
        default: return (count & 1) == 0;
    }
}
inline int eval_handler(const HandlerSpec &h, const Event &e) {
    switch (h.kind) {
        case 0: return -1;
        case 1: case 2: return h.arg;
        default: return h.tbl[e.id & 3];
    }
}

// ---------------------------------------------------------------------------------------------
// reference interpreter (independent of the implementation; reads only the CaseSpec)
// ---------------------------------------------------------------------------------------------
enum RuleFlag { RF_STOP_ACTIVE_NESTED = 1, RF_OWN_ROUTES_AFTER_NESTED_STOPPED = 2, RF_HANDLER_OTHER_NEGATIVE = 4 };

struct RState {
    int id = 0, spec = 0;
    bool has_enter = false, has_exit = false;
    int sub = -1;
    std::vector<int> routes;
    std::map<int, int> handlers;
    int def_handler = -1;
};
struct RMachine {
    std::map<int, RState> states;
    int init = NONE;
    bool has_cb = false;
    bool running = false;
    int cur = NONE, last = NONE, next = NONE;
    std::vector<int> gcount;
    RState *find(int id) {
        if (id == NONE) return nullptr;
        auto it = states.find(id);
        return it == states.end() ? nullptr : &it->second;
    }
};

struct Ref {
    const CaseSpec &cs;
    std::vector<RMachine> m;
    std::vector<Ev> trace;
    unsigned flags = 0;

    explicit Ref(const CaseSpec &c) : cs(c), m(c.m.size()) {
        for (size_t i = 0; i < m.size(); ++i) m[i].gcount.assign(cs.m[i].routes.size(), 0);
    }

    //! a definition call; returns what the API is documented to return
    bool define(int mi, const Def &d) {
        RMachine &M = m[mi];
        const MachineSpec &S = cs.m[mi];
        switch (d.op) {
            case D_STATE: {
                const StateSpec &st = S.states[d.idx];
                if (M.states.count(st.id)) { cnt(C_define_rejected_duplicate_state); return false; }   // "重复创建会失败"
                RState r; r.id = st.id; r.spec = d.idx; r.has_enter = st.has_enter; r.has_exit = st.has_exit;
                M.states[st.id] = r;
                if (M.init == NONE) M.init = st.id;     // first newState() is the default initial state
                return true;
            }
            case D_ROUTE: {
                const RouteSpec &R = S.routes[d.idx];
                RState *from = M.find(R.from);
                if (!from || (R.to != 0 && !M.find(R.to))) { cnt(C_define_rejected_route); return false; }
                from->routes.push_back(d.idx);
                return true;
            }
            case D_HANDLER: {
                const HandlerSpec &H = S.handlers[d.idx];
                RState *st = M.find(H.state);
                if (H.kind == 4 || !st) { cnt(C_define_rejected_handler); return false; }
                if (H.ev != 0) st->handlers[H.ev] = d.idx; else st->def_handler = d.idx;
                return true;
            }
            case D_INIT: M.init = S.inits[d.idx]; return true;
            case D_SUB: {
                RState *st = M.find(S.subs[d.idx].state);
                if (!st) { cnt(C_define_rejected_sub); return false; }
                st->sub = S.subs[d.idx].machine;
                return true;
            }
            default: M.has_cb = true; return true;
        }
    }

    Obs obs(int mi) const {
        const RMachine &M = m[mi];
        Obs o; o.cur = M.cur; o.last = M.last; o.next = M.next; o.running = M.running; o.term = (M.cur == 0);
        return o;
    }
    void emit(int kind, int mi, int idx, int a, int b, const Event &e) {
        Ev v; v.kind = kind; v.m = mi; v.idx = idx; v.a = a; v.b = b; v.eid = e.id; v.extra = e.extra; v.obs = obs(mi);
        trace.push_back(v);
        switch (kind) {
            case K_EXIT: cnt(C_action_exit); break;
            case K_ACTION: cnt(C_action_route); break;
            case K_ENTER: cnt(C_action_enter); break;
            case K_CHANGED: cnt(C_changed_notification); break;
            default: break;
        }
    }

    bool start(int mi) {
        RMachine &M = m[mi];
        if (M.running) { if (mi == 0) cnt(C_start_while_running); return false; }
        RState *s = M.find(M.init);
        if (!s) { cnt(C_start_bad_init); return false; }
        M.running = true;
        M.cur = s->id;
        if (s->has_enter) emit(K_ENTER, mi, s->spec, s->id, 0, Event());
        if (s->sub >= 0) { cnt(C_start_starts_nested); start(s->sub); }
        if ((uint64_t)cs.m[mi].depth + 1 > g_max_depth_active) g_max_depth_active = cs.m[mi].depth + 1;
        return true;
    }

    void stop(int mi, bool from_api) {
        RMachine &M = m[mi];
        if (!M.running) { if (mi == 0 && from_api) cnt(C_stop_while_stopped); return; }
        RState *s = M.find(M.cur);
        if (s && s->sub >= 0) {
            //! every state entered is exited by the time the machine is stopped: the nested machine goes first
            if (m[s->sub].running) {
                flags |= RF_STOP_ACTIVE_NESTED;
                if (from_api) {
                    cnt(C_stop_with_active_nested);
                    if (cs.m[s->sub].depth >= 2) cnt(C_stop_with_active_nested_depth2);
                } else {
                    cnt(C_terminated_nested_stopped_with_own_nested_active);
                }
            }
            stop(s->sub, from_api);
        }
        if (M.cur == 0 && from_api) cnt(C_stop_in_terminal);
        if (s && s->has_exit) emit(K_EXIT, mi, s->spec, s->id, 0, Event());
        M.cur = NONE;
        M.running = false;
    }

    bool run(int mi, const Event &e) {
        RMachine &M = m[mi];
        const MachineSpec &S = cs.m[mi];
        if (!M.running) { if (mi == 0) cnt(C_run_while_stopped); return false; }
        RState *s = M.find(M.cur);
        if (!s) { cnt(C_run_in_implicit_terminal); return false; }    // implicit terminal state: nothing registered
        if (s->sub >= 0) {
            RMachine &Q = m[s->sub];
            if (Q.running) {
                //! events go to the active nested machine until it has terminated
                cnt(C_delegate_to_nested);
                if (cs.m[s->sub].depth >= 2) cnt(C_delegate_depth2plus);
                bool ret = run(s->sub, e);
                if (Q.cur != 0) { cnt(C_nested_not_terminated_return); return ret; }
                stop(s->sub, false);
                cnt(C_nested_terminated_fallthrough);
            } else {
                //! it terminated (and was stopped) on an earlier event: this machine handles events itself
                flags |= RF_OWN_ROUTES_AFTER_NESTED_STOPPED;
                cnt(C_own_routes_after_nested_stopped);
            }
        }
        int target = NONE, route = -1;
        bool handler_called = false;
        //! a per-state event handler may pick the target ...
        {
            auto h = s->handlers.find(e.id);
            int hi = (h != s->handlers.end()) ? h->second : s->def_handler;
            if (hi >= 0) {
                cnt(h != s->handlers.end() ? C_handler_specific : C_handler_default);
                target = eval_handler(S.handlers[hi], e);
                handler_called = true;
                emit(K_HANDLER, mi, hi, target, 0, e);
                if (target >= 0) {
                    cnt(C_handler_picked_target);
                    for (int ri : s->routes) if (S.routes[ri].ev == 0 || S.routes[ri].ev == e.id) { cnt(C_handler_shadows_route); break; }
                }
            }
        }
        //! ... otherwise ("<0: no transition requested") the first route in registration order whose event
        //! matches and whose guard holds
        if (target < 0) {
            if (target != -1) { flags |= RF_HANDLER_OTHER_NEGATIVE; cnt(C_handler_other_negative); }
            else if (handler_called) cnt(C_handler_declined);
            cnt(C_route_scan);
            int candidates = 0, failed = 0;
            for (int ri : s->routes) {
                const RouteSpec &R = S.routes[ri];
                if (R.ev != 0 && R.ev != e.id) continue;
                ++candidates;
                if (R.g.kind != 0) {
                    bool g = eval_guard(R.g, e, M.gcount[ri]);
                    emit(K_GUARD, mi, ri, g ? 1 : 0, 0, e);
                    cnt(g ? C_guard_true : C_guard_false);
                    if (!g) { ++failed; continue; }
                }
                route = ri;
                break;
            }
            if (route < 0) { cnt(C_route_scan_no_match); return false; }
            const RouteSpec &R = S.routes[route];
            cnt(R.ev == 0 ? C_route_taken_wildcard : C_route_taken_specific);
            if (failed) cnt(C_route_taken_after_failed_candidate);
            {   // coverage only: later candidates that lost to this one
                bool seen = false; int later = 0, later_specific = 0;
                for (int ri : s->routes) {
                    if (ri == route) { seen = true; continue; }
                    if (!seen) continue;
                    const RouteSpec &L = S.routes[ri];
                    if (L.ev == 0 || L.ev == e.id) { ++later; if (L.ev != 0) ++later_specific; }
                }
                if (later || candidates > 1) cnt(C_route_multiple_candidates);
                if (R.ev == 0 && later_specific) cnt(C_route_wildcard_shadows_later_specific);
            }
            target = R.to;
        }
        RState *t = M.find(target);
        if (!t && target != 0) { cnt(C_handler_invalid_target); return false; }   // handler named a state that does not exist
        //! exit -> route action -> enter -> notification -> start nested machine, each exactly once
        cnt(C_transition);
        if (target == s->id) cnt(C_transition_self);
        if (target == 0) cnt(t ? C_transition_to_user_terminal : C_transition_to_implicit_terminal);
        M.next = target;
        if (s->has_exit) emit(K_EXIT, mi, s->spec, s->id, 0, e);
        M.last = s->id;
        M.cur = NONE;
        if (route >= 0 && S.routes[route].has_action) emit(K_ACTION, mi, route, S.routes[route].from, S.routes[route].to, e);
        M.cur = target;
        M.next = NONE;
        if (t && t->has_enter) emit(K_ENTER, mi, t->spec, t->id, 0, e);
        if (M.has_cb) emit(K_CHANGED, mi, -1, M.last, M.cur, e);
        if (t && t->sub >= 0) {
            cnt(C_enter_starts_nested);
            start(t->sub);
            run(t->sub, e);
            if (m[t->sub].running && m[t->sub].cur == 0) cnt(C_nested_terminated_on_entry_event);
        }
        return true;
    }
};

// ---------------------------------------------------------------------------------------------
// the real machines
// ---------------------------------------------------------------------------------------------
struct AbortCase {};

struct World {
    const CaseSpec &cs;
    std::vector<StateMachine *> sm;
    std::vector<Ev> trace;
    std::vector<std::vector<int>> gcount;
    std::vector<int> open;        //! balance monitor: per machine, the entered-and-not-exited state (if observable)
    int cur_op = OP_NONE;
    int in_probe = 0;
    bool delegating_hint = false;
    std::string pend_key, pend_detail;   //! first violation noticed inside a callback

    explicit World(const CaseSpec &c) : cs(c) {
        for (size_t i = 0; i < cs.m.size(); ++i) {
            sm.push_back(new StateMachine);
            sm.back()->setName(vh::fmt("M%zu", i));
            gcount.push_back(std::vector<int>(cs.m[i].routes.size(), 0));
        }
        open.assign(cs.m.size(), NONE);
    }
    void destroy() { for (auto *p : sm) delete p; sm.clear(); }
    void leak() { sm.clear(); }    //! after an aborted callback the objects are mid-call: never touched again

    void pend(const std::string &key, const std::string &detail) {
        if (pend_key.empty()) { pend_key = key; pend_detail = detail; }
    }
    Obs obs(int mi) const {
        const StateMachine &M = *sm[mi];
        Obs o; o.cur = M.currentState(); o.last = M.lastState(); o.next = M.nextState();
        o.running = M.isRunning(); o.term = M.isTerminated();
        return o;
    }

    // ---- balance monitor (does not use the reference) ----
    void bal_enter(int mi, const StateSpec &S) {
        if (cur_op == OP_RESTART && mi == 0) bal_stopped("restart(): top machine entered again");
        if (open[mi] != NONE)
            pend("balance/enter/previous-state-not-exited",
                 vh::fmt("M%d enters S%d while S%d (entered earlier) has not been exited", mi, S.id, open[mi]));
        open[mi] = S.has_exit ? S.id : NONE;
    }
    void bal_exit(int mi, const StateSpec &S) {
        if (S.has_enter && open[mi] != S.id)
            pend("balance/exit/state-not-entered",
                 vh::fmt("M%d exits S%d but the state recorded as entered is %d", mi, S.id, open[mi]));
        if (open[mi] != NONE) cnt(C_balance_states_closed);
        open[mi] = NONE;
    }
    void bal_stopped(const char *when) {
        cnt(C_balance_checks_at_stop);
        for (size_t mi = 0; mi < open.size(); ++mi)
            if (open[mi] != NONE)
                pend("balance/stopped/state-left-entered",
                     vh::fmt("%s: M%zu S%d was entered and never exited although the top machine is stopped", when, mi, open[mi]));
    }

    // ---- probes: calls on a machine from inside an action ----
    void probe(int mi, const Probe &p, int kind) {
        if (p.op == OP_NONE || in_probe) return;
        int t = mi;
        for (int k = 0; k < p.up && cs.m[t].parent >= 0; ++k) t = cs.m[t].parent;
        bool own = (t == mi);
        switch (p.op) {
            case OP_RUN: cnt(own ? C_reentry_own_run : C_reentry_ancestor_run); break;
            case OP_START: cnt(own ? C_reentry_own_start : C_reentry_ancestor_start); break;
            case OP_STOP: cnt(own ? C_reentry_own_stop : C_reentry_ancestor_stop); break;
            default: cnt(own ? C_reentry_own_restart : C_reentry_ancestor_restart); break;
        }
        static const CounterId in_kind[] = {C_reentry_in_handler, C_reentry_in_guard, C_reentry_in_exit, C_reentry_in_route_action,
                                            C_reentry_in_enter, C_reentry_in_changed};
        cnt(in_kind[kind]);
        std::vector<Obs> before;
        for (size_t i = 0; i < sm.size(); ++i) before.push_back(obs((int)i));
        size_t tl = trace.size();
        ++in_probe;
        bool ret = false;
        StateMachine &T = *sm[t];
        switch (p.op) {
            case OP_RUN: ret = T.run(Event(p.ev)); break;
            case OP_START: ret = T.start(); break;
            case OP_STOP: T.stop(); break;
            default: ret = T.restart(); break;
        }
        --in_probe;
        std::string diff;
        for (size_t i = 0; i < sm.size(); ++i) {
            Obs a = obs((int)i);
            if (a != before[i]) diff += vh::fmt(" M%zu %s -> %s;", i, obs_str(before[i]).c_str(), obs_str(a).c_str());
        }
        if (ret || !diff.empty() || trace.size() != tl) {
            std::string call = p.op == OP_RUN ? vh::fmt("run(%d)", p.ev) : vh::fmt("%s()", kOpName[p.op]);
            pend(own ? "reentry/own-action/call-accepted" : "reentry/nested-action/ancestor-call-accepted",
                 vh::fmt("M%d.%s called from inside M%d's %s callback while M%d was executing %s(): returned %s, %zu callbacks ran "
                         "during the call, observer changes:%s%s", t, call.c_str(), mi, kKindName[kind], t, kOpName[cur_op],
                         p.op == OP_STOP ? "void" : (ret ? "true" : "false"), trace.size() - tl, diff.empty() ? " none" : diff.c_str(),
                         trace.size() != tl ? (std::string("\n    callbacks run by the re-entrant call:") + trace_str(trace, tl, 8)).c_str() : ""));
            throw AbortCase();   //! the machine has been changed under the feet of a running call: do not return into it
        }
    }

    //! every callback of every machine lands here
    int cb(int kind, int mi, int idx, const Event &e, int a, int b) {
        const MachineSpec &S = cs.m[mi];
        int value = 0;
        const Probe *p = nullptr;
        switch (kind) {
            case K_HANDLER: value = a = eval_handler(S.handlers[idx], e); p = &S.handlers[idx].p; break;
            case K_GUARD: value = a = eval_guard(S.routes[idx].g, e, gcount[mi][idx]) ? 1 : 0; p = &S.routes[idx].gp; break;
            case K_EXIT: p = &S.states[idx].xp; break;
            case K_ACTION: p = &S.routes[idx].ap; break;
            case K_ENTER: p = &S.states[idx].ep; break;
            default: p = &S.cbp; break;
        }
        if (in_probe == 0) {    // callbacks run by an (erroneously accepted) re-entrant call are only counted
            if (kind == K_ENTER) bal_enter(mi, S.states[idx]);
            else if (kind == K_EXIT) bal_exit(mi, S.states[idx]);
        }
        Ev v; v.kind = kind; v.m = mi; v.idx = idx; v.a = a; v.b = b; v.eid = e.id; v.extra = e.extra; v.obs = obs(mi);
        trace.push_back(v);
        probe(mi, *p, kind);
        return value;
    }

    bool define(int mi, const Def &d) {
        StateMachine &M = *sm[mi];
        const MachineSpec &S = cs.m[mi];
        World *w = this;
        int idx = d.idx;
        switch (d.op) {
            case D_STATE: {
                const StateSpec &st = S.states[idx];
                int id = st.id;
                StateMachine::ActionFunc en, ex;
                if (st.has_enter) en = [w, mi, idx, id](Event e) { w->cb(K_ENTER, mi, idx, e, id, 0); };
                if (st.has_exit) ex = [w, mi, idx, id](Event e) { w->cb(K_EXIT, mi, idx, e, id, 0); };
                if (!st.has_enter && !st.has_exit) return M.newState(id, nullptr, nullptr);
                return M.newState(id, en, ex, "s");
            }
            case D_ROUTE: {
                const RouteSpec &R = S.routes[idx];
                StateMachine::GuardFunc g;
                StateMachine::ActionFunc act;
                int from = R.from, to = R.to;
                if (R.g.kind != 0) g = [w, mi, idx](Event e) -> bool { return w->cb(K_GUARD, mi, idx, e, 0, 0) != 0; };
                if (R.has_action) act = [w, mi, idx, from, to](Event e) { w->cb(K_ACTION, mi, idx, e, from, to); };
                return M.addRoute(R.from, R.ev, R.to, g, act);
            }
            case D_HANDLER: {
                const HandlerSpec &H = S.handlers[idx];
                StateMachine::EventFunc f;
                if (H.kind != 4) f = [w, mi, idx](Event e) -> StateMachine::StateID { return w->cb(K_HANDLER, mi, idx, e, 0, 0); };
                return M.addEvent(H.state, H.ev, f);
            }
            case D_INIT: M.setInitState(S.inits[idx]); return true;
            case D_SUB: return M.setSubStateMachine(S.subs[idx].state, sm[S.subs[idx].machine]);
            default:
                M.setStateChangedCallback([w, mi](StateMachine::StateID f, StateMachine::StateID t, Event e) { w->cb(K_CHANGED, mi, -1, e, f, t); });
                return true;
        }
    }
};

// ---------------------------------------------------------------------------------------------
// lock-step driver
// ---------------------------------------------------------------------------------------------
void report(const CaseSpec &cs, size_t ncalls_done, const std::string &key, const std::string &detail) {
    std::string d = describe(cs) + "calls: ";
    for (size_t i = 0; i < ncalls_done && i < cs.calls.size(); ++i) d += call_str(cs.calls[i]) + "; ";
    if (ncalls_done > cs.calls.size()) d += "stop() [end of case]; ";
    vh::st().case_desc = d;
    vh::viol(key, detail);
    cnt(C_cases_aborted_on_violation);
}

const char *rule_tag(unsigned flags) {
    if (flags & RF_HANDLER_OTHER_NEGATIVE) return "handler-negative-result-then-routes";
    if (flags & RF_OWN_ROUTES_AFTER_NESTED_STOPPED) return "own-routes-after-nested-terminated";
    if (flags & RF_STOP_ACTIVE_NESTED) return "stop-active-nested";
    return nullptr;
}

//! returns false when the case must end (violation reported)
bool step(const CaseSpec &cs, World &w, Ref &ref, const Call &c, size_t call_no, std::string *full_trace) {
    w.trace.clear();
    ref.trace.clear();
    ref.flags = 0;
    w.cur_op = c.op;
    w.pend_key.clear();
    Event e(c.ev, extra_ptr(c.extra));
    bool rret = false, xret = false;
    switch (c.op) {
        case OP_RUN: cnt(C_calls_run); if (c.extra) cnt(C_event_with_extra); xret = ref.run(0, e); break;
        case OP_START: cnt(C_calls_start); xret = ref.start(0); break;
        case OP_STOP: cnt(C_calls_stop); ref.stop(0, true); break;
        default: {
            cnt(C_calls_restart);
            ref.stop(0, true);
            if (ref.flags & RF_STOP_ACTIVE_NESTED) cnt(C_restart_with_active_nested);
            xret = ref.start(0);
            break;
        }
    }
    try {
        switch (c.op) {
            case OP_RUN: rret = w.sm[0]->run(e); break;
            case OP_START: rret = w.sm[0]->start(); break;
            case OP_STOP: w.sm[0]->stop(); break;
            default: rret = w.sm[0]->restart(); break;
        }
    } catch (const AbortCase &) {
        report(cs, call_no + 1, w.pend_key, w.pend_detail);
        w.leak();
        return false;
    }
    std::string callname = call_str(c);
    if (full_trace) {
        *full_trace += vh::fmt("\n  %s -> %s", callname.c_str(), c.op == OP_STOP ? "void" : (rret ? "true" : "false"));
        for (const Ev &v : w.trace) *full_trace += "\n      " + ev_str(v);
    }
    if (w.trace.size() > g_max_trace_len) g_max_trace_len = w.trace.size();
    // 1. monitors that do not depend on the reference
    if (c.op == OP_STOP || (c.op == OP_RESTART && !w.sm[0]->isRunning())) w.bal_stopped(c.op == OP_STOP ? "stop() returned" : "restart() returned with the machine stopped");
    if (!w.pend_key.empty()) {
        report(cs, call_no + 1, w.pend_key, vh::fmt("call #%zu %s: %s\n    callbacks observed during the call:%s", call_no, callname.c_str(),
                                                  w.pend_detail.c_str(), trace_str(w.trace).c_str()));
        return false;
    }
    // 2. lock-step comparison
    const char *tag = rule_tag(ref.flags);
    //! a divergence in a call where the reference applied one of the rarely exercised rules is keyed by that rule
    //! (whatever the API call was); any other divergence by the API call and the aspect that differed
    std::string keybase = tag ? std::string("model/rule/") : std::string("model/") + kOpName[c.op] + "/";
    size_t n = std::min(w.trace.size(), ref.trace.size());
    size_t i = 0;
    while (i < n && w.trace[i] == ref.trace[i]) ++i;
    cnt(C_trace_events_compared, i);
    if (i < w.trace.size() || i < ref.trace.size()) {
        std::string what;
        if (i >= w.trace.size()) what = "the implementation stopped producing callbacks; reference expects next: " + ev_str(ref.trace[i]);
        else if (i >= ref.trace.size()) what = "the implementation ran a callback the reference does not have: " + ev_str(w.trace[i]);
        else what = "callback differs: implementation " + ev_str(w.trace[i]) + " / reference " + ev_str(ref.trace[i]);
        report(cs, call_no + 1, keybase + (tag ? tag : "trace"),
               vh::fmt("call #%zu %s: traces diverge at callback %zu: %s\n    implementation:%s\n    reference:%s", call_no, callname.c_str(), i,
                       what.c_str(), trace_str(w.trace).c_str(), trace_str(ref.trace).c_str()));
        return false;
    }
    if (c.op != OP_STOP && rret != xret) {
        report(cs, call_no + 1, keybase + (tag ? tag : "return-value"),
               vh::fmt("call #%zu %s returned %s, reference %s (callback traces identical:%s)", call_no, callname.c_str(), rret ? "true" : "false",
                       xret ? "true" : "false", trace_str(w.trace).c_str()));
        return false;
    }
    for (size_t mi = 0; mi < cs.m.size(); ++mi) {
        Obs a = w.obs((int)mi), b = ref.obs((int)mi);
        cnt(C_observer_comparisons);
        if (a != b) {
            report(cs, call_no + 1, keybase + (tag ? tag : "observers"),
                   vh::fmt("after call #%zu %s: M%zu reports %s, reference %s (callback traces identical:%s)", call_no, callname.c_str(), mi,
                           obs_str(a).c_str(), obs_str(b).c_str(), trace_str(w.trace).c_str()));
            return false;
        }
    }
    return true;
}

void run_case(const CaseSpec &cs, bool want_sample_ok) {
    World w(cs);
    Ref ref(cs);
    cnt(C_machines, cs.m.size());
    uint64_t d0 = g_cnt[C_delegate_to_nested], t0 = g_cnt[C_transition], f0 = g_cnt[C_nested_terminated_fallthrough];
    uint64_t s0 = g_cnt[C_stop_with_active_nested], m0 = g_cnt[C_route_multiple_candidates];
    bool ok = true;
    for (size_t mi = 0; mi < cs.m.size() && ok; ++mi) {
        for (const Def &d : cs.m[mi].script) {
            bool exp = ref.define((int)mi, d);
            bool got = w.define((int)mi, d);
            if (exp != got) {
                static const char *const names[] = {"newState", "addRoute", "addEvent", "setInitState", "setSubStateMachine", "setStateChangedCallback"};
                report(cs, 0, std::string("define/") + names[d.op] + "/return-value",
                       vh::fmt("M%zu %s (definition #%d) returned %s, documented result %s", mi, names[d.op], d.idx, got ? "true" : "false", exp ? "true" : "false"));
                ok = false;
                break;
            }
        }
    }
    std::string full;
    bool sampling = want_sample_ok && vh::want_sample();
    size_t k = 0;
    for (; ok && k < cs.calls.size(); ++k) ok = step(cs, w, ref, cs.calls[k], k, sampling ? &full : nullptr);
    if (ok) {   // the machine is stopped at the end of every case: balance must hold
        Call fin; fin.op = OP_STOP;
        ok = step(cs, w, ref, fin, cs.calls.size(), sampling ? &full : nullptr);
    }
    if (!w.sm.empty()) w.destroy();
    bool fell = g_cnt[C_nested_terminated_fallthrough] > f0, stopped_nested = g_cnt[C_stop_with_active_nested] > s0;
    bool nontrivial = g_cnt[C_delegate_to_nested] > d0 && g_cnt[C_transition] > t0 + 1 && (fell || stopped_nested);
    vh::note_case(signature(cs), nontrivial);
    if (ok && nontrivial && fell && stopped_nested && g_cnt[C_route_multiple_candidates] > m0 && sampling && full.size() < 3500) {
        std::string calls;
        for (const Call &c : cs.calls) calls += call_str(c) + "; ";
        vh::sample("{\"definition\":" + vh::jstr(describe(cs)) + ",\"calls\":" + vh::jstr(calls) +
                   ",\"observed_trace\":" + vh::jstr(full) + "}");
    }
}

// ---------------------------------------------------------------------------------------------
// random generator
// ---------------------------------------------------------------------------------------------
struct GenCfg {
    int p_self_probe = 5;      //! percent per callback site
    int p_anc_probe = 4;
    bool other_negative = true;
    int max_machines = 7;
};

Probe gen_probe(vh::Rng &r, const GenCfg &g, int depth) {
    Probe p;
    unsigned x = (unsigned)r.below(100);
    if ((int)x < g.p_self_probe) p.up = 0;
    else if (depth > 0 && (int)x < g.p_self_probe + g.p_anc_probe) p.up = 1 + (int)r.below(depth);
    else return p;
    static const int ops[] = {OP_RUN, OP_RUN, OP_RUN, OP_STOP, OP_STOP, OP_START, OP_RESTART};
    p.op = r.pick(ops);
    p.ev = 1 + (int)r.below(3);
    return p;
}

int gen_event_id(vh::Rng &r) {
    unsigned x = (unsigned)r.below(100);
    if (x < 90) return 1 + (int)r.below(3);
    if (x < 94) return 0;
    if (x < 97) return 7;
    return -5;
}

void gen_machine(vh::Rng &r, const GenCfg &g, CaseSpec &cs, int mi) {
    // note: cs.m may reallocate when nested machines are appended; never keep a reference across push_back
    int depth = cs.m[mi].depth;
    bool top = cs.m[mi].parent < 0;
    int nstates = 1 + (int)r.below(5);
    std::vector<int> ids;
    {
        std::vector<int> pool = {1, 2, 3, 4, 5, 6};
        for (int i = 0; i < nstates; ++i) { size_t k = r.below(pool.size()); ids.push_back(pool[k]); pool.erase(pool.begin() + k); }
    }
    bool user_term = r.chance(3, 10);
    if (user_term) ids.insert(ids.begin() + 1 + r.below(ids.size()), 0);      // never first: state 0 as default initial state is rare (below)
    if (user_term && r.chance(1, 12)) std::swap(ids[0], ids[ids.size() - 1]);
    std::vector<StateSpec> states;
    for (int id : ids) {
        StateSpec S; S.id = id;
        S.has_enter = !r.chance(1, 9);
        S.has_exit = !r.chance(1, 9);
        if (S.has_enter) S.ep = gen_probe(r, g, depth);
        if (S.has_exit) S.xp = gen_probe(r, g, depth);
        states.push_back(S);
    }
    if (r.chance(1, 15)) {     // a duplicate newState() with different actions: must be refused and must not replace anything
        StateSpec S = states[r.below(states.size())];
        S.has_enter = !S.has_enter; S.has_exit = r.chance(1, 2); S.ep = Probe(); S.xp = Probe();
        states.push_back(S);
    }
    // routes
    std::vector<RouteSpec> routes;
    // nested machines should terminate reasonably often, otherwise their parents never move again
    int p_to_term = top ? 15 : 35;
    for (int id : ids) {
        int nr = (id == 0) ? (r.chance(1, 6) ? 1 : 0) : (int)r.below(5);
        for (int k = 0; k < nr; ++k) {
            RouteSpec R; R.from = id;
            R.ev = r.chance(1, 5) ? 0 : 1 + (int)r.below(3);
            R.to = ((int)r.below(100) < p_to_term) ? 0 : ids[r.below(ids.size())];
            if (r.chance(1, 40)) R.to = 9;     // undefined target: addRoute must fail
            unsigned x = (unsigned)r.below(100);
            if (x < 45) R.g.kind = 0; else if (x < 55) R.g.kind = 1; else if (x < 67) R.g.kind = 2;
            else if (x < 77) { R.g.kind = 3; R.g.arg = 1 + (int)r.below(3); } else if (x < 87) R.g.kind = 4; else R.g.kind = 5;
            R.has_action = r.chance(3, 5);
            if (R.g.kind) R.gp = gen_probe(r, g, depth);
            if (R.has_action) R.ap = gen_probe(r, g, depth);
            routes.push_back(R);
        }
    }
    if (r.chance(1, 30)) { RouteSpec R; R.from = 8; R.ev = 1; R.to = ids[0]; routes.push_back(R); }   // undefined source
    // handlers
    std::vector<HandlerSpec> handlers;
    for (int id : ids) {
        if (id == 0 && !r.chance(1, 6)) continue;
        int nh = r.chance(1, 4) ? 1 + (int)r.chance(1, 4) : 0;
        for (int k = 0; k < nh; ++k) {
            HandlerSpec H; H.state = id;
            H.ev = r.chance(1, 3) ? 0 : 1 + (int)r.below(3);
            unsigned x = (unsigned)r.below(100);
            auto any_target = [&]() { return r.chance(1, 5) ? 0 : ids[r.below(ids.size())]; };
            if (x < 40) H.kind = 0;
            else if (x < 65) { H.kind = 1; H.arg = any_target(); }
            else if (x < 73) { H.kind = 1; H.arg = 9; }                       // a state that does not exist
            else if (x < 81 && g.other_negative) { H.kind = 2; H.arg = r.chance(1, 2) ? -2 : -100; }
            else if (x < 97) { H.kind = 3; for (int &t : H.tbl) t = r.chance(1, 2) ? -1 : any_target(); }
            else H.kind = 4;
            if (H.kind != 4) H.p = gen_probe(r, g, depth);
            handlers.push_back(H);
        }
    }
    if (r.chance(1, 40)) { HandlerSpec H; H.state = 8; H.ev = 1; H.kind = 0; handlers.push_back(H); }     // undefined state
    // initial state
    std::vector<int> inits;
    bool init_first = false;
    {
        unsigned x = (unsigned)r.below(100);
        if (x < 55) { /* default: first newState() */ }
        else if (x < 90) { int v = ids[r.below(ids.size())]; if (v == 0 && !r.chance(1, 4)) v = ids[0]; inits.push_back(v); init_first = r.chance(1, 2); }
        else if (x < 96 && top) { inits.push_back(r.chance(1, 2) ? 9 : (user_term ? 9 : 0)); init_first = r.chance(1, 2); }   // bad initial state (top only)
        else { inits.push_back(-1); init_first = true; }     // explicit "unset": the first newState() decides again
    }
    // nested machines
    std::vector<SubSpec> subs;
    static const int p_sub[] = {45, 30, 18, 0};
    for (int id : ids) {
        if (depth >= 3 || (int)cs.m.size() >= g.max_machines) break;
        int p = p_sub[depth];
        if (id == 0) p /= 6;
        if ((int)r.below(100) >= p) continue;
        SubSpec s; s.state = id; s.machine = (int)cs.m.size();
        MachineSpec Q; Q.parent = mi; Q.depth = depth + 1; Q.host_state = id;
        cs.m.push_back(Q);
        subs.push_back(s);
    }
    if (!subs.empty() && ids.size() > 1 && r.chance(1, 25)) {   // one nested machine serving two states of the same parent
        SubSpec s = subs[0];
        for (int id : ids) if (id != s.state && id != 0) { bool used = false; for (auto &q : subs) used |= (q.state == id); if (!used) { s.state = id; subs.push_back(s); break; } }
    }
    if (!subs.empty() && r.chance(1, 40)) { SubSpec s; s.state = 8; s.machine = subs[0].machine; subs.push_back(s); }   // undefined host state
    bool has_cb = r.chance(3, 5);
    // definition script
    std::vector<Def> script, rest;
    if (!inits.empty() && init_first) script.push_back({D_INIT, 0});
    for (size_t i = 0; i < states.size(); ++i) script.push_back({D_STATE, (int)i});
    for (size_t i = 0; i < routes.size(); ++i) rest.push_back({D_ROUTE, (int)i});
    for (size_t i = 0; i < handlers.size(); ++i) rest.insert(rest.begin() + r.below(rest.size() + 1), {D_HANDLER, (int)i});
    for (size_t i = 0; i < subs.size(); ++i) rest.insert(rest.begin() + r.below(rest.size() + 1), {D_SUB, (int)i});
    if (!inits.empty() && !init_first) rest.insert(rest.begin() + r.below(rest.size() + 1), {D_INIT, 0});
    if (has_cb) rest.insert(rest.begin() + r.below(rest.size() + 1), {D_CB, 0});
    if (r.chance(1, 14) && !rest.empty() && top) {
        // a definition made before the states it names exist must fail (and then be absent)
        size_t k = r.below(rest.size());
        Def d = rest[k];
        if (d.op == D_ROUTE || d.op == D_HANDLER) { rest.erase(rest.begin() + k); script.insert(script.begin() + r.below(2), d); }
    }
    for (const Def &d : rest) script.push_back(d);
    MachineSpec &M = cs.m[mi];
    M.states = states; M.routes = routes; M.handlers = handlers; M.subs = subs; M.inits = inits; M.has_cb = has_cb;
    if (has_cb) M.cbp = gen_probe(r, g, depth);
    M.script = script;
    // generate the nested machines (appended above)
    for (const SubSpec &s : subs) if (cs.m[s.machine].script.empty() && s.machine != mi) gen_machine(r, g, cs, s.machine);
}

void gen_case(vh::Rng &r, CaseSpec &cs) {
    GenCfg g;
    unsigned x = (unsigned)r.below(100);
    if (x < 35) { g.p_self_probe = 0; g.p_anc_probe = 0; }          // plain conformance
    else if (x < 70) { g.p_self_probe = 6; g.p_anc_probe = 0; }     // calls from inside a machine's own actions
    else { g.p_self_probe = 5; g.p_anc_probe = 5; }                 // ... and on the enclosing machines from nested actions
    cs.m.push_back(MachineSpec());
    gen_machine(r, g, cs, 0);
    int n = 8 + (int)r.below(40);
    bool running = false;    //! generator's guess (exact unless the initial state is bad); only shapes the distribution
    for (int i = 0; i < n; ++i) {
        Call c;
        unsigned y = (unsigned)r.below(100);
        if (!running) {
            if (y < 62) c.op = OP_START;
            else if (y < 76) c.op = OP_RESTART;
            else if (y < 92) c.op = OP_RUN;
            else c.op = OP_STOP;
        } else {
            if (y < 84) c.op = OP_RUN;
            else if (y < 90) c.op = OP_STOP;
            else if (y < 94) c.op = OP_START;
            else c.op = OP_RESTART;
        }
        if (c.op == OP_RUN) { c.ev = gen_event_id(r); c.extra = r.chance(3, 10) ? 1 + (int)r.below(3) : 0; }
        else running = (c.op != OP_STOP);
        cs.calls.push_back(c);
    }
}

// ---------------------------------------------------------------------------------------------
// exhaustive sub-space: <= 2 states (+ implicit terminal), <= 2 routes, events {1,2}, handler in {none + 3},
// nested machine in {none + 2} under state 2, both initial states, every call sequence of the given depth
// over {start, stop, restart, run(1), run(2)}
// ---------------------------------------------------------------------------------------------
uint64_t route_options(int guards) { return 1 + 2 * 3 * 3 * (uint64_t)guards; }
uint64_t xspace(int depth, int guards) {
    uint64_t n = 1;
    for (int i = 0; i < depth; ++i) n *= 5;
    return n * route_options(guards) * route_options(guards) * 4 * 3 * 2;
}

void xcase(uint64_t idx, int depth, int guards, CaseSpec &cs) {
    uint64_t x = idx;
    std::vector<Call> calls;
    for (int i = 0; i < depth; ++i) {
        Call c; int d = (int)(x % 5); x /= 5;
        switch (d) { case 0: c.op = OP_START; break; case 1: c.op = OP_STOP; break; case 2: c.op = OP_RESTART; break;
                     case 3: c.op = OP_RUN; c.ev = 1; break; default: c.op = OP_RUN; c.ev = 2; break; }
        calls.push_back(c);
    }
    MachineSpec M;
    for (int id = 1; id <= 2; ++id) { StateSpec S; S.id = id; M.states.push_back(S); }
    uint64_t ro = route_options(guards);
    for (int k = 0; k < 2; ++k) {
        uint64_t o = x % ro; x /= ro;
        if (o == 0) continue;
        --o;
        RouteSpec R;
        R.from = 1 + (int)(o % 2); o /= 2;
        R.ev = (int)(o % 3); o /= 3;
        R.to = (int)(o % 3); o /= 3;
        R.g.kind = (o % guards) ? 5 : 0;
        R.has_action = true;
        M.routes.push_back(R);
    }
    int hopt = (int)(x % 4); x /= 4;
    if (hopt) {
        HandlerSpec H;
        if (hopt == 1) { H.state = 1; H.ev = 1; H.kind = 1; H.arg = 2; }
        else if (hopt == 2) { H.state = 1; H.ev = 0; H.kind = 0; }
        else { H.state = 2; H.ev = 2; H.kind = 1; H.arg = 0; }
        M.handlers.push_back(H);
    }
    int sopt = (int)(x % 3); x /= 3;
    int init = 1 + (int)(x % 2); x /= 2;
    M.inits.push_back(init);
    M.has_cb = true;
    M.script.push_back({D_STATE, 0}); M.script.push_back({D_STATE, 1});
    for (size_t i = 0; i < M.routes.size(); ++i) M.script.push_back({D_ROUTE, (int)i});
    for (size_t i = 0; i < M.handlers.size(); ++i) M.script.push_back({D_HANDLER, (int)i});
    M.script.push_back({D_INIT, 0});
    M.script.push_back({D_CB, 0});
    if (sopt) { SubSpec s; s.state = 2; s.machine = 1; M.subs.push_back(s); M.script.push_back({D_SUB, 0}); }
    cs.m.push_back(M);
    if (sopt) {
        MachineSpec Q; Q.parent = 0; Q.depth = 1; Q.host_state = 2;
        { StateSpec S; S.id = 1; Q.states.push_back(S); }
        Q.script.push_back({D_STATE, 0});
        if (sopt == 1) {
            RouteSpec R; R.from = 1; R.ev = 1; R.to = 0; R.has_action = true; Q.routes.push_back(R);
        } else {
            { StateSpec S; S.id = 2; Q.states.push_back(S); }
            Q.script.push_back({D_STATE, 1});
            { RouteSpec R; R.from = 1; R.ev = 2; R.to = 2; R.has_action = true; Q.routes.push_back(R); }
            { RouteSpec R; R.from = 2; R.ev = 0; R.to = 0; R.g.kind = 5; Q.routes.push_back(R); }
        }
        for (size_t i = 0; i < Q.routes.size(); ++i) Q.script.push_back({D_ROUTE, (int)i});
        cs.m.push_back(Q);
    }
    cs.calls = calls;
}

}  // namespace

int main(int argc, char **argv) {
    vh::parse_args(argc, argv);
    vh::Args &a = vh::st().args;
    const std::string mode = a.mode;
    int depth = (int)a.num("depth", 4), guards = (int)a.num("guards", 1);
    if (mode == "xcount") { printf("%llu\n", (unsigned long long)xspace(depth, guards)); return 0; }
    const uint64_t last = a.first + a.count - 1;
    return vh::run(argc, argv, [&](uint64_t i, vh::Rng &rng) {
        CaseSpec cs;
        if (mode == "exhaustive") {
            xcase(i, depth, guards, cs);
            run_case(cs, (i % 977) == 0);
        } else {
            gen_case(rng, cs);
            run_case(cs, true);
        }
        if (vh::st().args.verbose) {
            std::string calls;
            for (const Call &c : cs.calls) calls += call_str(c) + "; ";
            fprintf(stderr, "case %llu: %s\n  calls: %s\n", (unsigned long long)i, describe(cs).c_str(), calls.c_str());
        }
        if (i == last) {    // vh::run() prints the summary right after the last case: hand over the counters now
            for (int c = 0; c < C_NCOUNTERS; ++c) if (g_cnt[c]) vh::counter(kCounterName[c], g_cnt[c]);
            vh::counter_max("max_depth_active", g_max_depth_active);
            vh::counter_max("max_callbacks_in_one_call", g_max_trace_len);
        }
    });
}
