// C12 shared pieces: generator of well-formed HTTP/1.x requests with declared body lengths (and its ground
// truth), canonical rendering of a parsed tbox::http::Request for comparison, hostile mutations, cut-point sets.
//
// "Well-formed" here is deliberately the narrow common ground of RFC 9112 and what the parser documents:
//   METHOD SP target SP HTTP/1.x CRLF  *( Name ":" OWS value OWS CRLF )  CRLF  body
//   - method one of the seven the library knows; single spaces; target = "/" path [";" k=v ...] ["?" k=v&...] ["#" frag]
//     with every byte outside the unreserved set percent-escaped (valid two-digit escapes, either hex case)
//   - header names are distinct tokens in their canonical spelling, values are non-empty, have no CR/LF, OWS is spaces only
//   - every request carries `Content-Length: <decimal body length>` (the segmentation clause of the property is about
//     requests *with declared body lengths*; a body without one is segmentation dependent by design)
#ifndef VERIF_C12_GEN_HPP
#define VERIF_C12_GEN_HPP

#include "common/vh.hpp"
#include <tbox/http/request.h>
#include <map>
#include <string>
#include <vector>
#include <algorithm>

namespace c12 {

typedef std::map<std::string, std::string> SMap;

struct Truth {
    std::string method;
    std::string path;       // decoded
    SMap params, query;     // decoded
    std::string frag;       // decoded
    int ver = 11;           // 10 | 11
    SMap headers;           // name -> value with OWS removed
    std::string body;
    bool closing = false;   // asks for the connection to be closed (HTTP/1.0 without keep-alive, or Connection: close)
    bool closing_by_ver = false;
    // wire form and landmarks inside it (offsets relative to the start of this request)
    std::string wire;
    size_t method_len = 0;
    size_t line_end = 0;     // offset of the CR that ends the request line
    size_t head_end = 0;     // offset of the first body byte
    size_t cl_value_off = 0, cl_value_len = 0;   // the digits of Content-Length
    std::vector<size_t> colon_offs;              // offsets of the ':' of each header line
};

inline std::string canon(const std::string &method, const std::string &path, const SMap &params, const SMap &query,
                         const std::string &frag, int ver, const SMap &headers, const std::string &body) {
    std::string o;
    auto put = [&](const std::string &s) { o += std::to_string(s.size()); o += ':'; o += s; o += '|'; };
    put(method); put(path);
    o += "P" + std::to_string(params.size()) + "|";
    for (auto &kv : params) { put(kv.first); put(kv.second); }
    o += "Q" + std::to_string(query.size()) + "|";
    for (auto &kv : query) { put(kv.first); put(kv.second); }
    put(frag);
    o += "V" + std::to_string(ver) + "|H" + std::to_string(headers.size()) + "|";
    for (auto &kv : headers) { put(kv.first); put(kv.second); }
    put(body);
    return o;
}
inline std::string canon(const Truth &t) { return canon(t.method, t.path, t.params, t.query, t.frag, t.ver, t.headers, t.body); }

inline int ver_num(tbox::http::HttpVer v) {
    switch (v) {
        case tbox::http::HttpVer::k1_0: return 10;
        case tbox::http::HttpVer::k1_1: return 11;
        case tbox::http::HttpVer::k2_0: return 20;
        default: return -1;
    }
}
inline const char *method_name(tbox::http::Method m) {
    using tbox::http::Method;
    switch (m) {    // own table: the comparison must not depend on the library's MethodToString
        case Method::kGet: return "GET"; case Method::kHead: return "HEAD"; case Method::kPut: return "PUT";
        case Method::kPost: return "POST"; case Method::kTrace: return "TRACE"; case Method::kOptions: return "OPTIONS";
        case Method::kDelete: return "DELETE"; default: return "?";
    }
}
inline std::string canon(const tbox::http::Request &r) {
    return canon(method_name(r.method), r.url.path, r.url.params, r.url.query, r.url.frag, ver_num(r.http_ver), r.headers, r.body);
}

//! readable one-line rendering for witnesses
inline std::string brief(const std::string &canon_str, size_t max = 300) {
    std::string o;
    for (unsigned char c : canon_str.substr(0, max)) {
        if (c >= 0x20 && c < 0x7f && c != '\\') o += (char)c;
        else { char b[8]; snprintf(b, sizeof b, "\\x%02x", c); o += b; }
    }
    if (canon_str.size() > max) o += "...";
    return o;
}
inline std::string printable(const std::string &s, size_t max = 400) { return brief(s, max); }

static const char *const kMethods[] = {"GET", "HEAD", "PUT", "POST", "TRACE", "OPTIONS", "DELETE"};

inline bool unreserved(unsigned char c) {
    return (c >= 'a' && c <= 'z') || (c >= 'A' && c <= 'Z') || (c >= '0' && c <= '9') || c == '-' || c == '_' || c == '.' || c == '~';
}

inline std::string pct(vh::Rng &r, const std::string &decoded, bool path_mode) {
    static const char *HU = "0123456789ABCDEF", *HL = "0123456789abcdef";
    std::string o;
    for (unsigned char c : decoded) {
        bool raw = unreserved(c) || (path_mode && c == '/');
        if (raw && !r.chance(1, 12)) { o += (char)c; continue; }
        const char *H = r.chance(1, 2) ? HU : HL;
        o += '%'; o += H[c >> 4]; o += H[c & 15];
    }
    return o;
}

inline std::string word(vh::Rng &r, size_t lo, size_t hi, bool wild) {
    static const char plain[] = "abcdefghijklmnopqrstuvwxyzABCDEFGHIJKLMNOPQRSTUVWXYZ0123456789-_.~";
    size_t n = (size_t)r.range((int64_t)lo, (int64_t)hi);
    std::string s;
    for (size_t i = 0; i < n; ++i) {
        if (wild && r.chance(1, 4)) {
            static const unsigned char odd[] = {' ', '%', '/', ';', '?', '#', '&', '=', '+', ':', '@', '\r', '\n', 0x00, 0x7f, 0x80, 0xe4, 0xff, '"', '<'};
            s += (char)(r.chance(1, 2) ? odd[r.below(sizeof odd)] : r.byte());
        } else
            s += plain[r.below(sizeof plain - 1)];
    }
    return s;
}

struct GenOpts {
    size_t max_body = 300;          // usual upper bound of a body
    unsigned big_body_1_in = 0;     // 0 = never; else one request in N gets a body of 1500..70000 bytes
    bool allow_closing = false;     // server-level pipelines decide this themselves
};

inline std::string gen_body(vh::Rng &r, size_t n) {
    std::string b;
    switch (r.below(6)) {
        case 0: b = r.bytes(n); break;
        case 1: {   // contains the header terminator and bare CR / LF
            static const char *bits[] = {"\r\n\r\n", "\r\n", "\r", "\n", "GET / HTTP/1.1\r\n", "Content-Length: 5\r\n", "\0", "x"};
            while (b.size() < n) { if (r.chance(1, 2)) b += r.pick(bits); else b += (char)r.byte(); }
            b.resize(n);
            break;
        }
        case 2: {   // looks like a pipelined request
            std::string fake = "POST /in-body HTTP/1.1\r\nContent-Length: 3\r\nConnection: close\r\n\r\nabc";
            while (b.size() < n) b += fake;
            b.resize(n);
            break;
        }
        case 3: b.assign(n, '\0'); break;
        case 4: b = word(r, n, n, false); break;
        default: b = r.bytes(n); for (auto &c : b) if (r.chance(1, 5)) c = r.chance(1, 2) ? '\r' : '\n'; break;
    }
    return b;
}

//! one well-formed request. `ordinal` goes into an X-Ord header so server-level observers can identify it.
inline Truth gen_request(vh::Rng &r, int ordinal, const GenOpts &o, int force_close /* -1 free, 0 keep, 1 close */ = 0) {
    Truth t;
    t.method = r.pick(kMethods);
    // ---- target
    {
        int segs = (int)r.range(0, 3);
        t.path = "/";
        for (int i = 0; i < segs; ++i) {
            if (i) t.path += '/';
            t.path += word(r, 1, 7, r.chance(1, 3));
        }
        if (segs && r.chance(1, 6)) t.path += '/';
        int np = r.chance(1, 4) ? (int)r.range(1, 2) : 0;
        for (int i = 0; i < np; ++i) t.params[word(r, 1, 4, r.chance(1, 4))] = r.chance(1, 6) ? std::string() : word(r, 1, 6, r.chance(1, 3));
        int nq = r.chance(1, 2) ? (int)r.range(1, 3) : 0;
        for (int i = 0; i < nq; ++i) t.query[word(r, 1, 5, r.chance(1, 4))] = r.chance(1, 6) ? std::string() : word(r, 1, 8, r.chance(1, 3));
        if (r.chance(1, 10)) t.frag = word(r, 1, 5, r.chance(1, 3));
    }
    std::string target = "/" + pct(r, t.path.substr(1), true);     // the leading slash is never escaped
    for (auto &kv : t.params) target += ";" + pct(r, kv.first, false) + "=" + pct(r, kv.second, false);
    {
        bool first = true;
        for (auto &kv : t.query) { target += first ? "?" : "&"; first = false; target += pct(r, kv.first, false) + "=" + pct(r, kv.second, false); }
    }
    if (!t.frag.empty()) target += "#" + pct(r, t.frag, false);
    // ---- version and connection persistence
    t.ver = r.chance(1, 7) ? 10 : 11;
    bool want_close = force_close == 1 || (force_close == -1 && r.chance(1, 4));
    std::string conn_hdr;     // empty = none
    if (want_close) {
        t.closing = true;
        if (t.ver == 10 && r.chance(1, 2)) t.closing_by_ver = true;   // HTTP/1.0 with no Connection header
        else conn_hdr = "close";
    } else {
        if (t.ver == 10) conn_hdr = "keep-alive";
        else if (r.chance(1, 5)) conn_hdr = "keep-alive";
    }
    // ---- body
    size_t blen;
    if (o.big_body_1_in && r.chance(1, o.big_body_1_in)) blen = (size_t)r.range(1500, 70000);
    else {
        static const size_t small[] = {0, 0, 0, 1, 2, 3, 4, 5, 9, 16};
        blen = r.chance(1, 2) ? small[r.below(10)] : (size_t)r.range(0, (int64_t)o.max_body);
    }
    t.body = gen_body(r, blen);
    // ---- headers
    struct H { std::string name, value, lead, trail; };
    std::vector<H> hs;
    auto ows = [&]() { return r.chance(1, 8) ? std::string(r.range(0, 3), ' ') : std::string(" "); };
    auto add = [&](const std::string &n, const std::string &v) {
        H h; h.name = n; h.value = v; h.lead = ows(); h.trail = r.chance(1, 10) ? std::string(r.range(1, 2), ' ') : std::string();
        hs.push_back(h);
    };
    if (r.chance(3, 4)) add("Host", "127.0.0.1");
    add("X-Ord", std::to_string(ordinal));
    static const char *names[] = {"User-Agent", "Accept", "Content-Type", "X-Trace", "Cookie", "Referer", "Accept-Encoding", "If-None-Match", "X-a", "B"};
    int extra = (int)r.range(0, 4);
    for (int i = 0; i < extra; ++i) {
        std::string n = r.chance(3, 4) ? std::string(r.pick(names)) : "X-" + word(r, 1, 8, false);
        bool dup = false;
        for (auto &h : hs) if (h.name == n) dup = true;
        if (dup) continue;
        std::string v;
        size_t vl = (size_t)r.range(1, 24);
        for (size_t k = 0; k < vl; ++k) {
            unsigned char c;
            unsigned q = (unsigned)r.below(20);
            if (q == 0) c = ':'; else if (q == 1) c = ' '; else if (q == 2) c = '\t'; else if (q == 3) c = (unsigned char)r.range(0x80, 0xff);
            else c = (unsigned char)r.range(0x21, 0x7e);
            v += (char)c;
        }
        // a value is what is left after optional white space is removed: keep both ends non-blank
        if (v[0] == ' ' || v[0] == '\t') v[0] = 'v';
        if (v[v.size() - 1] == ' ' || v[v.size() - 1] == '\t') v[v.size() - 1] = 'v';
        add(n, v);
    }
    if (!conn_hdr.empty()) add("Connection", conn_hdr);
    {
        std::string digits = std::to_string(t.body.size());
        if (r.chance(1, 15)) digits = std::string(r.range(1, 3), '0') + digits;
        H h; h.name = "Content-Length"; h.value = digits; h.lead = ows(); h.trail = r.chance(1, 10) ? " " : "";
        hs.insert(hs.begin() + (long)r.below(hs.size() + 1), h);
    }
    // ---- wire
    t.method_len = t.method.size();
    t.wire = t.method + " " + target + (t.ver == 10 ? " HTTP/1.0" : " HTTP/1.1");
    t.line_end = t.wire.size();
    t.wire += "\r\n";
    for (auto &h : hs) {
        t.colon_offs.push_back(t.wire.size() + h.name.size());
        t.wire += h.name + ":" + h.lead;
        if (h.name == "Content-Length") { t.cl_value_off = t.wire.size(); t.cl_value_len = h.value.size(); }
        t.wire += h.value + h.trail + "\r\n";
        t.headers[h.name] = h.value;
    }
    t.wire += "\r\n";
    t.head_end = t.wire.size();
    t.wire += t.body;
    return t;
}

//! cut points (strictly inside (0, L)), sorted, unique
typedef std::vector<size_t> Cuts;

inline Cuts random_cuts(vh::Rng &r, size_t L, size_t k) {
    Cuts c;
    if (L < 2) return c;
    for (size_t i = 0; i < k; ++i) c.push_back((size_t)r.range(1, (int64_t)L - 1));
    std::sort(c.begin(), c.end());
    c.erase(std::unique(c.begin(), c.end()), c.end());
    return c;
}

inline std::vector<std::string> split_at(const std::string &s, const Cuts &cuts) {
    std::vector<std::string> segs;
    size_t prev = 0;
    for (size_t c : cuts) { segs.push_back(s.substr(prev, c - prev)); prev = c; }
    segs.push_back(s.substr(prev));
    return segs;
}

//! where does absolute stream offset `p` (a cut: first byte of the next segment) fall? for coverage counters and narrowing
struct Where { int req; const char *what; };
inline Where locate(const std::vector<Truth> &reqs, size_t p) {
    size_t base = 0;
    for (size_t i = 0; i < reqs.size(); ++i) {
        const Truth &t = reqs[i];
        if (p < base + t.wire.size()) {
            size_t o = p - base;
            if (o == 0) return {(int)i, "request-boundary"};
            if (o < t.method_len) return {(int)i, "inside-method"};
            if (o == t.method_len) return {(int)i, "after-method"};
            if (o <= t.line_end) return {(int)i, "inside-request-line"};
            if (o == t.line_end + 1) return {(int)i, "between-cr-lf"};
            if (o == t.line_end + 2) return {(int)i, "after-request-line"};
            if (o == t.head_end - 1) return {(int)i, "inside-blank-line"};
            if (o < t.head_end) {
                if (o > t.cl_value_off && o < t.cl_value_off + t.cl_value_len) return {(int)i, "inside-content-length-digits"};
                if (t.wire[o - 1] == '\r') return {(int)i, "between-cr-lf"};
                return {(int)i, "inside-headers"};
            }
            if (o == t.head_end) return {(int)i, "before-body"};
            return {(int)i, "inside-body"};
        }
        base += t.wire.size();
    }
    return {(int)reqs.size(), "end"};
}

//! does some cut fall strictly inside the method token of a request whose first bytes start a segment or follow a consumed request?
inline bool cut_inside_method(const std::vector<Truth> &reqs, const Cuts &cuts) {
    for (size_t c : cuts) if (std::string(locate(reqs, c).what) == "inside-method") return true;
    return false;
}

// ---------------------------------------------------------------- hostile inputs

inline std::string hostile_number(vh::Rng &r) {
    static const char *v[] = {"abc", "-1", "-2", "-5", "-2147483648", "2147483647", "2147483648", "4294967295", "4294967296",
                              "9223372036854775807", "9223372036854775808", "18446744073709551615", "18446744073709551616",
                              "99999999999999999999999999", "1e3", "0x10", "+5", " 7", "7 ", "12abc", "", " ", "\t", "٣", "1.5", "--1",
                              "0000000000000000000000000000000001", "\xff\xfe", "NaN", "-", "+", "00", "-0"};
    if (r.chance(1, 4)) return r.bytes((size_t)r.range(0, 6));
    return r.pick(v);
}

//! mutate a valid stream (1..3 edits); `reqs` gives the landmarks
inline std::string mutate(vh::Rng &r, const std::vector<Truth> &reqs, std::string *what) {
    std::string s;
    std::vector<size_t> base;
    for (auto &t : reqs) { base.push_back(s.size()); s += t.wire; }
    int edits = (int)r.range(1, 3);
    for (int e = 0; e < edits && !s.empty(); ++e) {
        size_t ri = r.below(reqs.size());
        const Truth &t = reqs[ri];
        size_t b = base[ri];
        bool landmarks_ok = (e == 0);   // offsets are only exact before the first length-changing edit
        switch (r.below(14)) {
            case 0: case 1: case 2:
                if (landmarks_ok) { std::string n = hostile_number(r); s.replace(b + t.cl_value_off, t.cl_value_len, n); *what += "content-length=" + printable(n) + ";"; break; }
                /* fallthrough */
            case 3:
                if (landmarks_ok && !t.colon_offs.empty()) { s.erase(b + r.pick(t.colon_offs), 1); *what += "drop-colon;"; break; }
                /* fallthrough */
            case 4: { size_t p = r.below(s.size()); s.insert(p, 1, '\r'); *what += "bare-cr;"; break; }
            case 5: { size_t p = r.below(s.size()); s.insert(p, 1, '\n'); *what += "bare-lf;"; break; }
            case 6: { size_t p = r.below(s.size()); s.insert(p, (size_t)r.range(1, 3), '\0'); *what += "nul;"; break; }
            case 7: { size_t p = r.below(s.size()); s.erase(p, (size_t)r.range(1, 4)); *what += "delete;"; break; }
            case 8: { size_t p = r.below(s.size()); size_t n = (size_t)r.range(1, 40); s.insert(p, s.substr(p, n)); *what += "duplicate;"; break; }
            case 9: { s.resize(r.below(s.size() + 1)); *what += "truncate;"; break; }
            case 10: { size_t p = r.below(s.size()); s[p] = (char)r.byte(); *what += "flip;"; break; }
            case 11: {  // broken percent escape in the target
                static const char *bad[] = {"%", "%4", "%zz", "%G0", "%0G", "%%", "%\r\n", "%-1", "%+f"};
                size_t p = b + t.method_len + 1 + r.below(std::max<size_t>(1, t.line_end - t.method_len - 9));
                if (p <= s.size()) s.insert(p, r.pick(bad));
                *what += "bad-escape;"; break;
            }
            case 12: {  // structural noise in the target
                static const char *bad[] = {";", ";;", ";=", ";a", "?", "?=", "?a", "?a=b=c", "&&", "#", ";a=b;", "?a=1&", " ", "  "};
                size_t p = b + t.method_len + 1 + r.below(std::max<size_t>(1, t.line_end - t.method_len - 9));
                if (p <= s.size()) s.insert(p, r.pick(bad));
                *what += "target-noise;"; break;
            }
            default: {  // second Content-Length / Connection header, or a header with an empty value
                static const char *extra[] = {"Content-Length: x\r\n", "Content-Length:\r\n", "Content-Length: -1\r\n", "Connection:\r\n", ":\r\n",
                                              " : \r\n", "Content-Length: 99999999999\r\n", "A:\r\n", "\r\n", "Content-Length : 3\r\n"};
                if (landmarks_ok) s.insert(b + t.line_end + 2, r.pick(extra));
                else s.insert(r.below(s.size()), r.pick(extra));
                *what += "extra-header;"; break;
            }
        }
    }
    return s;
}

//! decimal text of 2^64 - k (k = 0 gives the 20-digit number that no longer fits)
inline std::string two64_minus(uint64_t k) {
    if (k == 0) return "18446744073709551616";
    return std::to_string((uint64_t)0 - k);
}

//! A stream whose last-but-tail request declares a body length at a boundary of the size type: 2^64 - k for k in 0..H+8 (H = length
//! of that request's start line + headers, the offset at which the body starts inside the receive buffer; k = H is asked for in one
//! case out of three), SIZE_MAX, SIZE_MAX - 1, 2^63 +- 1, 2^32 +- 1, 2^31 +- 1. Syntactically these are valid decimal lengths; the body
//! can never arrive, so a parser has to wait (or refuse) - whatever follows the headers. `cls` names the value class for counters.
inline std::string boundary_length_stream(vh::Rng &r, int first_ordinal, std::string *what, std::string *cls, bool *body_follows) {
    GenOpts o; o.max_body = 30;
    std::string bytes;
    int lead = r.chance(1, 3) ? 1 : 0;
    for (int i = 0; i < lead; ++i) bytes += gen_request(r, first_ordinal + i, o, 0).wire;
    Truth t = gen_request(r, first_ordinal + lead, o, r.chance(1, 6) ? 1 : 0);
    std::string head = t.wire.substr(0, t.head_end);
    // the header block length once the 20-digit value is in place
    auto with_value = [&](const std::string &v) { std::string h = head; h.replace(t.cl_value_off, t.cl_value_len, v); return h; };
    size_t H20 = head.size() - t.cl_value_len + 20;
    std::string v;
    unsigned q = (unsigned)r.below(13);
    if (q == 12) { v = two64_minus(0); *cls = "2p64_exact"; }      // one more than the type holds: has to be refused
    else if (q < 4) { v = two64_minus(H20); *cls = "2p64_minus_header_length"; }
    else if (q < 7) { uint64_t k = (uint64_t)r.range(0, (int64_t)H20 + 8); v = two64_minus(k); *cls = (k == H20) ? "2p64_minus_header_length" : (k == 0 ? "2p64_exact" : "2p64_window"); }
    else if (q == 7) { uint64_t k = t.head_end - t.line_end - 2 + 20 - t.cl_value_len; v = two64_minus(k); *cls = "2p64_window"; }   // header lines only (start line consumed earlier)
    else if (q == 8) { v = r.chance(1, 2) ? "18446744073709551615" : "18446744073709551614"; *cls = "size_max"; }
    else if (q == 9) { static const char *b[] = {"9223372036854775807", "9223372036854775808", "9223372036854775809"}; v = r.pick(b); *cls = "2p63_boundary"; }
    else if (q == 10) { static const char *b[] = {"4294967295", "4294967296", "4294967297"}; v = r.pick(b); *cls = "2p32_boundary"; }
    else { static const char *b[] = {"2147483647", "2147483648", "2147483649"}; v = r.pick(b); *cls = "2p31_boundary"; }
    bytes += with_value(v);
    unsigned tail = (unsigned)r.below(4);
    *body_follows = tail != 0;
    if (tail == 1) bytes += t.body.empty() ? std::string("x") : t.body;
    else if (tail == 2) bytes += r.bytes((size_t)r.range(1, 300));
    else if (tail == 3) bytes += gen_request(r, first_ordinal + lead + 1, o, 0).wire;
    *what += "boundary-content-length=" + v + (*body_follows ? "+tail;" : ";");
    return bytes;
}

//! A request that carries a plain decimal Content-Length must have been handed out with exactly that many body bytes:
//! returns false (and the two numbers as text) when it was not. Anything that is not 1..20 digits is left alone.
inline bool declared_length_honoured(const tbox::http::Request &req, std::string *declared) {
    auto it = req.headers.find("Content-Length");
    if (it == req.headers.end()) return true;
    const std::string &v = it->second;
    if (v.empty() || v.size() > 20) return true;
    for (char c : v) if (c < '0' || c > '9') return true;
    size_t i = 0;
    while (i + 1 < v.size() && v[i] == '0') ++i;
    *declared = v.substr(i);
    return *declared == std::to_string(req.body.size());
}

//! bytes that are not derived from a valid request at all
inline std::string garbage(vh::Rng &r, std::string *what) {
    std::string s;
    switch (r.below(4)) {
        case 0: { s = r.bytes((size_t)r.range(0, 200)); *what += "random-bytes;"; break; }
        case 1: {   // protocol-shaped token soup
            static const char *tok[] = {"GET", "POST", "HEAD", "PUT", "TRACE", "OPTIONS", "DELETE", "GE", "get", " ", "  ", "/", "/a", "/%41", "/a;b=c", "?x=1", "#f",
                                        "HTTP/1.1", "HTTP/1.0", "HTTP/2.0", "HTTP/", "HTTP/9.9", "\r\n", "\r\n\r\n", "\r", "\n", ":", ": ", "Content-Length", "Connection",
                                        "close", "keep-alive", "0", "1", "5", "12", "-1", "x", "%", "%2", ";", "=", "&", "\0", "\xff", "Host"};
            int n = (int)r.range(1, 40);
            for (int i = 0; i < n; ++i) { const char *t = r.pick(tok); s += (t[0] == '\0') ? std::string(1, '\0') : std::string(t); }
            *what += "token-soup;"; break;
        }
        case 2: {   // a request line followed by header-shaped lines with hostile values
            s = std::string(r.pick(kMethods)) + " /" + word(r, 0, 6, true) + " HTTP/1." + (r.chance(1, 2) ? "1" : "0") + "\r\n";
            int n = (int)r.range(0, 5);
            for (int i = 0; i < n; ++i) {
                if (r.chance(1, 3)) s += "Content-Length:" + std::string(r.below(3), ' ') + hostile_number(r) + "\r\n";
                else s += word(r, 0, 6, r.chance(1, 3)) + (r.chance(5, 6) ? ":" : "") + word(r, 0, 8, r.chance(1, 2)) + "\r\n";
            }
            if (r.chance(3, 4)) s += "\r\n";
            s += r.bytes((size_t)r.range(0, 20));
            *what += "hostile-headers;"; break;
        }
        default: {  // very long single tokens
            size_t n = (size_t)r.range(1000, 9000);
            switch (r.below(4)) {
                case 0: s = std::string(n, 'G'); break;
                case 1: s = "GET /" + std::string(n, 'a'); break;
                case 2: s = "GET / HTTP/1.1\r\nA: " + std::string(n, 'b'); break;
                default: s = "GET /?" + std::string(n, '&') + " HTTP/1.1\r\n\r\n"; break;
            }
            *what += "long-token;"; break;
        }
    }
    return s;
}

}  // namespace c12

#endif
