#!/usr/bin/env python3
"""auto_confirm.py <PID> <k>  -- round-2 seeds: extract build/run commands from NOTES.md, run with and without the patch."""
import sys, re, os, subprocess
pid, k = sys.argv[1], sys.argv[2]
RND = os.environ.get("ROUND", "2")
D = "/tmp/seed_out%s/%s_%s" % (RND, pid, k)
WT = "/tmp/seed%s_%s" % (RND, pid)
notes = open(D + "/NOTES.md").read().splitlines()
# find first command block containing g++ or build_demo
idx = None
for i, l in enumerate(notes):
    if re.search(r"(^|\s)(g\+\+|sh\s+\S*build_demo\.sh|\S*/build_demo\.sh)\s", l) and not l.strip().startswith(("#", "`g++")) and "compiles" not in l:
        idx = i; break
if idx is None:
    print("NO COMMAND FOUND"); sys.exit(2)
# go back over preceding assignment / cd / mkdir lines
start = idx
while start > 0 and re.match(r"^\s*(cd |mkdir |[A-Za-z_][A-Za-z0-9_]*=)", notes[start-1]) :
    start -= 1
# extend over continuation lines
end = idx
while notes[end].rstrip().endswith("\\"):
    end += 1
block = [l.strip() for l in notes[start:end+1]]
# the run line: next non-empty line(s) that look like an executable invocation
run = None
for j in range(end+1, min(end+8, len(notes))):
    l = notes[j].strip()
    if not l or l.startswith(("```", "#")): continue
    m = re.match(r"^(\S*(demo|_demo)\S*)(\s.*)?$", l)
    if m: run = l; break
build = "\n".join(block)
# if the build line itself ends with '&& /tmp/demoX', split
m = re.search(r"&&\s*(\S*demo\S*)\s*$", build)
if m and run is None:
    run = m.group(1); build = build[:m.start()]
if run is None:
    m = re.search(r"-o\s+(\S+)", build)
    run = m.group(1) if m else None
run = re.sub(r";\s*echo.*$", "", run or "")
run = re.sub(r"\s+#.*$", "", run)
print("BUILD:\n" + build + "\nRUN: " + run)
DEMOCWD = D if os.environ.get("CWD_D") == "1" else WT
def sh(c, cwd=None, t=600):
    cwd = cwd or WT
    try:
        p = subprocess.run(["bash", "-c", c], cwd=cwd, capture_output=True, text=True, timeout=t)
        return p.returncode, (p.stdout + p.stderr)
    except subprocess.TimeoutExpired:
        return 124, "TIMEOUT"
sh("git checkout -q -- .")
rc, out = sh("git apply %s/patch.diff" % D)
if rc: print("APPLY FAILED", out); sys.exit(2)
TESTS = {"C01": ("tbox_event_test", "CommonLoop.*"), "C02": ("tbox_event_test tbox_eventx_test", "TimerEvent.*:CommonLoop.*:TimerPool.*"),
         "C03": ("tbox_event_test", "FdEvent.*"), "C04": ("tbox_event_test", "SignalEvent.*"), "C05": ("tbox_eventx_test", "ThreadPool.*"),
         "C06": ("tbox_network_test", "BufferedFd.*"), "C07": ("tbox_util_test", "Buffer.*"), "C08": ("tbox_base_test tbox_util_test", "*abinet*:ObjectPool*:Fd.*:*Token*:Lifetime*"),
         "C09": ("tbox_log_test", "*"), "C10": ("tbox_util_test", "AsyncPipe.*"), "C11": ("", ""), "C12": ("tbox_http_test", "*"),
         "C13": ("tbox_terminal_test", "*"), "C14": ("tbox_jsonrpc_test tbox_eventx_test", "*Proto*:Rpc*:TimeoutMonitor*"), "C15": ("tbox_eventx_test", "TimeoutMonitor*"),
         "C16": ("tbox_flow_test", "StateMachine.*"), "C17": ("tbox_flow_test", "*Action*-LoopAction.SleepActionForever:SleepAction.*:Action.Timeout:ActionExecutor.CancelCurrent:ParallelAction.SleepFunctionAction"),
         "C18": ("tbox_coroutine_test", "*"), "C19": ("tbox_util_test tbox_crypto_test", "*"), "C20": ("tbox_alarm_test", "*")}
tg, filt = TESTS[pid]
if tg and os.environ.get("SKIP_TESTS") != "1":
    if not os.path.exists(WT + "/_build/build.ninja"):
        sh('cmake -G Ninja -B _build "-DCMAKE_CXX_FLAGS=-Wno-error=use-after-free -Wno-error=unused-but-set-variable" > /dev/null 2>&1', t=600)
    rc, out = sh("cmake --build _build --target %s -- -k0 -j6 > _build/b.log 2>&1" % tg, t=1800)
    print("[tests with change] build rc=%d" % rc)
    for t in tg.split():
        rc, out = sh("B=$(find _build -name %s -type f | head -1); timeout 600 $B --gtest_filter='%s' 2>&1 | grep -E '^\\[  (PASSED|FAILED)' | head -4" % (t, filt), t=700)
        print("   %s: %s" % (t, out.strip().replace("\n", " | ")))
os.makedirs(WT + "/_build", exist_ok=True)
for label in ("WITH", "WITHOUT"):
    rc, out = sh(build, cwd=DEMOCWD, t=900)
    if rc: print("demo build failed (%s change): %s" % (label, out[-600:]))
    rc, out = sh(run, cwd=DEMOCWD, t=300)
    print("--- demo %s change: rc=%d\n%s" % (label, rc, "\n".join(out.strip().splitlines()[-4:])[:900]))
    sh("git checkout -q -- .")
