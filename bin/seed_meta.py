import json, os
SRC="fresh sub-agent given only the property record and a scratch worktree of /repo HEAD (nothing from /verif)"
T={
 'c01_1':('C01',"a cross-thread runInLoop() landing between the loop thread's unlock of the queue swap and its (now unlocked) drain of the eventfd/flag reset, followed by silence (finishRunRequest() moved out of the lock)",
          "tbox_event_test CommonLoop.* 24/24 pass with the change; demo_lost_wakeup.cpp reports a lost wake-up within seconds with it and passes (>100k rounds per back-end) without"),
 'c01_2':('C01',"a successful cancel() with at least two tasks queued behind the cancelled one (swap-with-last removal breaks FIFO order in the pending queue and in the executing batch)",
          "CommonLoop.* 24/24 pass with the change; demo_cancel_order.cpp fails 8/8 scenarios with it, passes without"),
 'c05_1':('C05',"cleanup() followed by initialize() on the same ThreadPool object (idle-worker counter left one too high per stopped worker, so the re-initialised pool never spawns workers)",
          "ThreadPool.* 7/7 pass with the change; demo_reinit.cpp fails all rounds with it (executed=0 status=kWaiting), passes without"),
 'c05_2':('C05',"cancel(t) issued at the instant a worker picks up t (cancel() split into two critical sections answers 1 = not found for a task that is executing)",
          "ThreadPool.* 7/7 pass with the change; demo_cancel_answer.cpp fails within ~20 steered tries with it, 0 violations in 146944 tries without"),
 'c08_1':('C08',"free() of a null/reset token while slot 0 is on the free list (lost isNull() guard: id 0 also marks a free cell); damage shows on later allocations",
          "tbox_base_test cabinet tests pass with the change; demo_cabinet_null_free.cpp fails (scripted + 14/20 random seeds) with it, passes without"),
 'c08_2':('C08',"an ObjectPool with a finite retention limit that is exceeded, and a type with a non-trivial destructor (destructor call moved into the park-on-free-list branch only)",
          "tbox_base_test 47/47 pass with the change; demo_pool_dtor_over_limit.cpp fails (ctor=151 dtor=127) with it, passes without"),
 'c10_1':('C10',"a producer filling the partial buffer and starting the next one between the background thread's unlocked peek of curr_buffer_ and its try_lock (timed flush)",
          "AsyncPipe.* 11/11 pass with the change; demo_c10_1.cpp (steered through the AsyncPipe.before_try_lock point) fails with it (wrong byte at stream position 42), passes without"),
 'c10_2':('C10',"after a timeout wake-up, a producer filling the partial buffer and starting a new one before try_lock: the newer partial buffer goes into a private batch and overtakes the full one (no loss, no race: order only)",
          "AsyncPipe.* 11/11 pass with the change; demo_c10_2.cpp (steered) reports REORDERED with it, passes without"),
 'c11_1':('C11',"a module that overrides the hooks, has a required child, and that child fails to initialise (state_ set to kInited before the children loop and never reset on the failure path)",
          "modules/main has no unit tests (tbox_main builds with -Werror); demo_c11_1.cpp reports 5 violations with the change (double onCleanup, onStart after failed initialize), passes without"),
 'c11_2':('C11',"cleanup() or destruction of a tree that is still running, without stop() first (cleanup() stops only the module itself; children stop one by one during their own cleanup)",
          "demo_c11_2.cpp reports 2 order violations with the change, passes without"),
 'c16_1':('C16',"a nested machine whose user-defined terminal state has an exit action while the parent has a guard/handler on the same event, or a nested machine terminating on an event the parent does not route (stop of the terminated nested machine deferred to the parent's exit)",
          "StateMachine.* 20/20 pass with the change; demo_c16_1.cpp fails (6) with it, passes without"),
 'c16_2':('C16',"a route that is both a wildcard (event 0) and guarded, with the guard false (misplaced parentheses: guards apply only to specific-event routes)",
          "StateMachine.* 20/20 pass with the change; demo_c16_2.cpp fails (7) with it, passes without"),
 'c18_1':('C18',"after the unlock() that wakes a waiter, the mutex is retaken before the waiter runs (waiter registered once before the wait loop instead of before every sleep)",
          "tbox_coroutine_test 22/22 pass with the change; demo_mutex_reacquire.cpp fails with it (mutex free, waiter suspended), passes without"),
 'c18_2':('C18',"create, join, then cancel the target before its first time slice (cancel() of an unstarted routine frees it directly and never wakes the joiner)",
          "tbox_coroutine_test 22/22 pass with the change; demo_cancel_unstarted_join.cpp fails with it (joiner suspended for ever), passes without"),
 'c19_1':('C19',"an MD5 update() that leaves a non-block-aligned amount pending followed by an update() that ends exactly on a 64-byte boundary with at least 64 further bytes (whole-block loop bound < instead of <=)",
          "tbox_crypto_test 5/5 pass with the change; demo_md5_split.cpp reports 1323 mismatching (length, split) pairs with it, passes without"),
 'c19_2':('C19',"a failed Deserializer::skip(n) on truncated input followed by further reads on the same object (cursor moved before validation, so size_ - pos_ wraps)",
          "Serializer/Deserializer tests 11/11 pass with the change; demo_deser_skip.cpp gets an ASan heap-buffer-overflow with it, passes without"),
 'c20_1':('C20',"the monotonic clock ahead of the wall clock across a second boundary (or the wall clock set back) when the alarm re-arms: the wait is computed from the delivered instant instead of from now",
          "tbox_alarm_test 1/1 pass with the change; demo_c20_1.cpp (virtual wall clock) sees callbacks one second early with it, passes without"),
 'c20_2':('C20',"current time (or the last delivered instant on a re-enable from the callback) exactly equal to the configured time of day of a one-shot alarm (>= became >)",
          "tbox_alarm_test 1/1 pass with the change; demo_c20_2.cpp sees 25 wrong answers and 100000 callbacks for one instant with it, passes without"),
 'c02_1':('C02',"at least 5 pending timers and disabling one that is neither the heap front nor a leaf and whose children have smaller deadlines than the last element (deleteTimer replaces it by the last element and only sifts up)",
          "TimerEvent.*/CommonLoop.* 28/28 pass with the change; demo_c02_1.cpp sees timers fire out of deadline order and up to 59 ms late with it, passes without"),
 'c02_2':('C02',"the loop waking a full period or more late while a persistent timer is armed (re-arm guard resets the deadline to now+interval, dropping the missed periods)",
          "TimerEvent.*/CommonLoop.* 28/28 pass with the change; demo_c02_2.cpp counts 16 instead of 20 invocations with it, passes without"),
 'c03_1':('C03',"a callback that removes a sibling on the same descriptor and enables at least as many others (dispatch skips the liveness search while the subscriber list has not shrunk); both back-ends",
          "FdEvent.* 8/8 pass with the change; demo_c03_1.cpp sees a callback on a disabled sibling and a segfault in the destroy variant with it, passes without"),
 'c03_2':('C03',"epoll back-end, a one-shot event sharing a descriptor with a sibling of a different mask, and a pass in which only the sibling's condition is ready (one-shot disarms itself before the mask test)",
          "FdEvent.* 8/8 pass with the change; demo_c03_2.cpp: on epoll the one-shot write event never fires with it, passes without"),
 'c06_1':('C06',"a send() issued from inside the send-complete callback (write event disabled after the callback instead of before it)",
          "BufferedFd.* 3/3 pass with the change; demo_c06_1.cpp receives 1267840 of 8388608 bytes with it, passes without"),
 'c06_2':('C06',"a receive callback that consumed only a small prefix, then a burst larger than the free tail whose spill exceeds the read offset (Buffer growth copies the unconsumed bytes to offset 0 but keeps the indices)",
          "Buffer.* 15/15 pass with the change; demo_c06_2.cpp fails 8 of 12 sessions with it, passes without"),
 'c12_1':('C12',"method DELETE and a segment boundary 1-5 bytes into the method name at the start of a request (enum loop bound excludes the last method from the prefix test)",
          "tbox_http_test 39/39 pass with the change; demo_c12_1.cpp: 6 of 774 segmentations differ with it, 0 without"),
 'c12_2':('C12',"at least 4 requests in flight completing in an order that leaves a gap among the parked responses (e.g. 1,3,0,2): flush loop takes the map's next element instead of looking up the next index",
          "tbox_http_test 39/39 pass with the change; demo_c12_2.cpp: orders 1302 and 3102 produce r0 r1 r3 then silence with it, 0 violations without"),
 'c14_1':('C14',"a request issued from inside another request's timeout callback and itself unanswered (TimeoutMonitor iterates the expiring slot in place and clears it afterwards)",
          "tbox_jsonrpc_test 20/20 pass with the change; demo_c14_1.cpp: retry callback runs 0 times with it, passes without"),
 'c14_2':('C14',"a batch containing a nested array (index incremented through a reference into a vector that was reallocated by the push of the nested array)",
          "tbox_jsonrpc_test 20/20 pass with the change; demo_c14_2.cpp: messages of nested batches delivered two or more times with it, passes without"),
 'c04_1':('C04',"the loop's last subscription (over all signals) removed and a new subscription made in the same loop turn (read event of the signal pipe not disabled before the pipe is closed; deferred delete; new pipe reuses the fd numbers and is never watched)",
          "SignalEvent.* 11/11 pass with the change; demo_c04_1.cpp: B fires 0 times in steps 2 and 3 with it, passes without"),
 'c04_2':('C04',"a one-shot signal event initialised with more than one signal, then a delivery of its other signal or destruction of all events (one-shot path unsubscribes only the signal that fired)",
          "SignalEvent.* 11/11 pass with the change; demo_c04_2.cpp: one-shot fires again and the SIGUSR1 disposition is not restored with it, passes without"),
 'c13_1':('C13',"non-empty history, then Up, then an Enter that stores nothing (empty line, 'history', failing '!n'), then Up and Enter again (browse position reset moved into the stored-line branch)",
          "tbox_terminal_test 33/33 pass with the change; demo_history_browse.cpp executes 'probe a' instead of 'probe c' with it, passes without"),
 'c13_2':('C13',"telnet 'IAC DONT <opt>' split exactly after the command byte (frame-complete check folded into one min_size with DONT excluded): option byte read past the data, consumed bytes off by one, printable option byte lands in the edit line",
          "tbox_terminal_test 33/33 pass with the change; demo_telnet_split_nego.cpp mismatches with it (ASan: heap-buffer-overflow at telnetd.cpp:224), passes without"),
 'c15_1':('C15',"a compression pointer to itself, or a label followed by a pointer back to that label (hop limit replaced by a 'must point backwards' test that compares with the position after the pointer)",
          "tbox_network_test unchanged (23 pass / 5 offline failures on both trees); demo_ptr_loop.cpp: three loop packets die with SIGSEGV with it, passes without"),
 'c15_2':('C15',"a matching datagram that is then ignored (truncated, malformed, A record with rdlength != 4, SERVFAIL from a server that is not the last), followed by whatever would have completed the lookup (callback moved out before the reply is parsed)",
          "tbox_network_test unchanged; demo_lookup_once.cpp: four scenarios report 0 callbacks with it, passes without"),
 'c17_1':('C17',"a pause that lands between the finish of a terminal child (then/else of IfElse, then of IfThen, case/default of Switch, child of Composite) and the parent's handling of it, followed by resume (curr_action_ no longer cleared in onLastChildFinished)",
          "tbox_flow_test action tests 86/86 pass with the change (four timing-flaky tests excluded on both trees); demo_c17_1.cpp reports 7 violations with it (root never finishes), passes without"),
 'c17_2':('C17',"a node with setTimeout(), a leaf below it that blocks, reset() in that state without a prior stop(), then waiting past the old deadline or a restart that needs longer than what is left of it (reset() disarms the timer only while running)",
          "action tests 86/86 pass with the change; demo_c17_2.cpp reports 7 violations with it (stale ActionTimeout finish; early timeout of the second run), passes without"),
}
res={}
for pid in set(v[0] for v in T.values()):
    try: res.update(json.load(open('/verif/mutants/%s/RESULTS.json'%pid))['results'])
    except Exception: pass
for d,(prop,needs,conf) in T.items():
    r=res.get('seeded/%s/patch.diff'%d)
    if isinstance(r,dict):
        caught="bin/check %s quick: %s%s"%(prop,r['status'],(" — first key "+r['keys'][0].split('  ')[0].replace('key=','')) if r.get('keys') else "")
    else: caught="(replay pending)"
    old={}
    try: old=json.load(open('/verif/seeded/%s/meta.json'%d))
    except Exception: pass
    if old.get('caught_by_note'): caught+=" — "+old['caught_by_note']
    m={"property":prop,"source":SRC,"needs":needs,"confirmed":"applied in a scratch worktree of /repo HEAD; "+conf,"caught_by":caught}
    if old.get('caught_by_note'): m['caught_by_note']=old['caught_by_note']
    json.dump(m,open('/verif/seeded/%s/meta.json'%d,'w'),indent=1)
print("metas written")
