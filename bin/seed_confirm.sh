#!/bin/bash
# confirm.sh <PID> <k> <module-test-target> <gtest-filter> -- builds tests with the change, runs them, runs demo with/without.
# demo build command is read from $DEMO_CMD (uses $R), run command from $DEMO_RUN
P=$1; K=$2; TGT=$3; FILT=$4
R=${WT:-/tmp/seed_$P}; D=${DD:-/tmp/seed_out/${P}_$K}
cd $R || exit 2
git checkout -q -- .
[ -d _build ] || cmake -G Ninja -B _build "-DCMAKE_CXX_FLAGS=-Wno-error=use-after-free -Wno-error=unused-but-set-variable" >/dev/null 2>&1
git apply $D/patch.diff || { echo "APPLY FAILED"; exit 2; }
if [ -n "$TGT" ]; then
  cmake --build _build --target $TGT -- -k0 -j6 > _build/confirm_build.log 2>&1; echo "[$P_$K] build rc=$? (with -Werror as the project sets it)"
  B=$(find _build -name $TGT -type f | head -1)
  timeout 600 $B --gtest_filter="$FILT" 2>&1 | grep -E "^\[  (PASSED|FAILED)|tests ran" | head -5
fi
cd $D
eval "$DEMO_CMD" > /tmp/confirm_demo_build.log 2>&1 || { echo "demo build failed (with change)"; tail -5 /tmp/confirm_demo_build.log; }
echo "--- demo WITH change:"; ( eval "timeout 300 $DEMO_RUN" 2>&1 | tail -4 ); echo "rc=${PIPESTATUS[0]}"
cd $R; git checkout -q -- .
cd $D
eval "$DEMO_CMD" > /tmp/confirm_demo_build.log 2>&1 || { echo "demo build failed (unchanged)"; tail -5 /tmp/confirm_demo_build.log; }
echo "--- demo WITHOUT change:"; ( eval "timeout 300 $DEMO_RUN" 2>&1 | tail -3 ); echo "rc=${PIPESTATUS[0]}"
